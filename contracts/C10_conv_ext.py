"""C10 extension (second sentence of the property: "The AXI data-width converters translate length and size so that the same bytes are transferred
in the same order, and deliver all data beats with last on the final one"; first sentence for AXIBurst2Beat with wide ids).

What "the same bytes in the same order" means on the ADDRESS channels, for every burst type (the data paths are C10_axi_datapath.py):
  the W/R stride converters re-pack by BEAT INDEX.  Down (ratio r, wide word Nw, narrow word Nn): wide beat k becomes the narrow beats k*r+j (j < r),
  beat k*r+j carrying the byte lanes j*Nn.. of the wide word.  So the translated burst transfers the same bytes in the same order iff, by the AMBA
  address rules (A3.4.1) applied on BOTH sides,
        narrow_word(addr_to(k*r+j)) == wide_word(addr_from(k))*r + j          for every k <= len_from, j < r                      (DOWN)
  Up: narrow beat i is packed into wide beat i div r, lanes (i mod r)*Nn..:
        wide_word(addr_to(i div r))*r + (i mod r) == narrow_word(addr_from(i))  for every i <= len_from                            (UP)
  k, j, i are rigid symbolic constants, so one proved clause is the statement for every beat of every burst.  FIXED "keeps hitting the same address"
  and the WRAP boundary are instances of the same formula (addr_from/addr_to are the AMBA functions of the burst type on each side).
Cases: burst types and narrow transfers through AXIDownConverter / AXIUpConverter; every side-band field on its beat; the dispatching AXIConverter
proved sequentially equivalent to the converter it must select (and a wire for equal widths); AXIBurst2Beat with a wide id."""
import contextlib, z3
from vf.elab import L, locals_of, mk
from vf.hw import *
from migen import *
from migen.fhdl.tools import list_targets
from litex.soc.interconnect.axi import AXIInterface, AXIUpConverter, AXIDownConverter, AXIConverter
from vf.core import Case as VCase                      # migen exports Case
import contracts.C10_axi_burst as B
from contracts.C10_axi_datapath import pay, _inner, _fire, _lane

W = 40                                                  # width of the address arithmetic of the specification (no wrap-around for 32-bit addresses)
USERW = dict(aw_user_width=3, w_user_width=2, b_user_width=2, ar_user_width=3, r_user_width=2)

# ---------------------------------------------------------------------------------------------------
# elaboration of the code under contract: an exception of a real constructor for a legal configuration is a VIOLATION of the case, not a crash
class _ElabFailed(Exception): pass

def _mk(cls, *a, **k):
    try: return mk(cls, *a, **k)
    except Exception as e: raise _ElabFailed(f"{getattr(cls, '__name__', cls)}: {type(e).__name__}: {e}")

def _guard(fn):
    def run(*a, **k):
        try: return fn(*a, **k)
        except _ElabFailed as e:
            return dict(results=[res("ens.elaborates", "ensures", VIOLATED, 0, "real constructor", info=f"the real constructor raised for a legal configuration: {e}")],
                        functions=[], assumptions=[], samples=[])
    run.__name__ = fn.__name__
    return run

def _ifs(dw_from, dw_to, version="axi4", idw=2):
    a = AXIInterface(data_width=dw_from, address_width=32, id_width=idw, version=version, **USERW)
    c = AXIInterface(data_width=dw_to,   address_width=32, id_width=idw, version=version, **USERW)
    return a, c

def _env_inputs(a, c):
    """every signal the environment (AXI master on `a`, AXI slave on `c`) drives"""
    ins = []
    for ch in ("aw", "w", "ar"): ins += [getattr(a, ch).valid, getattr(a, ch).first, getattr(a, ch).last] + pay(getattr(a, ch))
    ins += [a.b.ready, a.r.ready]
    for ch in ("b", "r"): ins += [getattr(c, ch).valid, getattr(c, ch).first, getattr(c, ch).last] + pay(getattr(c, ch))
    ins += [c.aw.ready, c.w.ready, c.ar.ready]
    return ins

def _log2(n): return n.bit_length() - 1

# ---------------------------------------------------------------------------------------------------
# AMBA AXI A3.4.1 as specification functions (W-bit terms)
def _Z(x): return zx(x, W)
ONE = z3.BitVecVal(1, W)

def amba_addr(addr, blen, bsize, btype, n):
    """byte address of transfer n of the burst: FIXED every transfer at the start address; INCR the first at the start address, transfer n at
    aligned(start) + n*bytes; WRAP like INCR but wrapping to the lower boundary (start rounded down to the container (len+1)*bytes) at the upper one"""
    A, S, N = _Z(addr), _Z(bsize), _Z(n)
    sb = ONE << S; total = (_Z(blen) + 1) << S
    aligned = A & ~(sb - 1)
    incr = z3.If(N == 0, A, aligned + (N << S))
    base = A & ~(total - 1)
    wrap = base + ((aligned - base + (N << S)) & (total - 1))
    return z3.If(btype == K(0, 2), A, z3.If(btype == K(1, 2), incr, wrap))

def amba_legal(addr, blen, bsize, btype, maxsize):
    """AXI-legal burst: size within the bus; WRAP 2/4/8/16 transfers with a start aligned to the transfer size; INCR inside a 4KB page; FIXED up to 16 transfers"""
    A, S = _Z(addr), _Z(bsize)
    sb = ONE << S; total = (_Z(blen) + 1) << S
    return z3.And(ule(bsize, maxsize), btype != K(3, 2),
                  z3.Implies(btype == K(2, 2), z3.And(z3.Or(*[blen == K(v, blen.size()) for v in (1, 3, 7, 15)]), (A & (sb - 1)) == 0)),
                  z3.Implies(btype == K(1, 2), z3.ULE((A & K(4095, W)) - (A & (sb - 1)) + total, K(4096, W))),
                  z3.Implies(btype == K(0, 2), ule(blen, 15)))

def burst_range(addr, blen, bsize):
    """[lo, hi) byte range of an INCR burst"""
    A, S = _Z(addr), _Z(bsize)
    lo = A & ~((ONE << S) - 1)
    return lo, lo + ((_Z(blen) + 1) << S)

# ---------------------------------------------------------------------------------------------------
@_guard
def c_down_bursts(dw_from, dw_to):
    """AXIDownConverter AW/AR: burst types, narrow transfers, convert_size (combinational clauses over the real channel signals)"""
    a, c = _ifs(dw_from, dw_to)
    d = _mk(AXIDownConverter, a, c)
    h = HwCheck(f"AXIDownConverter({dw_from}->{dw_to}).bursts", d, _env_inputs(a, c))
    V = h.v
    lf, lt = _log2(dw_from // 8), _log2(dw_to // 8); lr = lf - lt; r = 1 << lr
    for ch in ("aw", "ar"):
        f, t = getattr(a, ch), getattr(c, ch)
        fa, fl, fs, fb = V(f.addr), V(f.len), V(f.size), V(f.burst)
        ta, tl, ts, tb = V(t.addr), V(t.len), V(t.size), V(t.burst)
        k = h.const(f"{ch}_k", 8); j = h.const(f"{ch}_j", lr)            # wide beat k, sub-word j: narrow beat k*r+j
        legal = amba_legal(fa, fl, fs, fb, lf)
        legal_t = amba_legal(ta, tl, ts, tb, lt)
        inb = z3.ULE(k, fl)
        full = fs == K(lf, 3)
        beats_t = (_Z(fl) + 1) << lr
        fits = z3.ULE(beats_t, K(256, W))
        FIXED, INCR, WRAP = fb == K(0, 2), fb == K(1, 2), fb == K(2, 2)
        m = (_Z(k) << lr) + _Z(j)
        want = (z3.LShR(amba_addr(fa, fl, fs, fb, k), lf) << lr) + _Z(j)      # narrow word = sub-word j of the wide word addressed by wide beat k
        got = z3.LShR(amba_addr(ta, tl, ts, tb, m), lt)
        same_word = z3.And(tb != K(3, 2), got == want)
        ok = z3.And(same_word, ts == K(lt, 3))                                    # ... transferred as a whole narrow-bus word
        wrap16 = z3.ULE(beats_t, K(16, W))
        # --- burst types at full size: proved scopes
        h.ensure(f"ens.{ch}.beat-address@incr", z3.Implies(z3.And(legal, INCR, full, fits, inb), ok))
        h.ensure(f"ens.{ch}.beat-address@wrap", z3.Implies(z3.And(legal, WRAP, full, wrap16, inb), ok))
        h.ensure(f"ens.{ch}.beat-address@fixed-single", z3.Implies(z3.And(legal, FIXED, full, fl == K(0, 8), inb), ok))
        # a narrow single transfer that is at least as wide as the target bus: the whole wide word is walked, the lanes outside the transfer carry no strobes
        nsingle = z3.And(z3.ULT(fs, K(lf, 3)), z3.UGE(fs, K(lt, 3)), fl == K(0, 8), z3.Not(WRAP))
        h.ensure(f"ens.{ch}.beat-address@narrow-single", z3.Implies(z3.And(legal, nsingle, inb), ok))
        # the translated burst is itself AXI-legal
        h.ensure(f"ens.{ch}.legal", z3.Implies(z3.And(legal, full, fits, z3.Implies(WRAP, wrap16), z3.Implies(FIXED, fl == K(0, 8))), legal_t))
        # WRAP: same container (boundary and size), still WRAP, start still aligned
        tot_f = (_Z(fl) + 1) << _Z(fs); tot_t = (_Z(tl) + 1) << _Z(ts)
        h.ensure(f"ens.{ch}.wrap-boundary", z3.Implies(z3.And(legal, WRAP, full),
                                                        z3.And(tb == K(2, 2), tot_t == tot_f, (_Z(ta) & ~(tot_t - 1)) == (_Z(fa) & ~(tot_f - 1)), (_Z(ta) & ((ONE << _Z(ts)) - 1)) == 0)))
        # --- convert_size and narrow transfers: clauses that hold for every size
        h.ensure(f"ens.{ch}.size=min(size,target-bus)", ts == z3.If(z3.ULE(fs, K(lt, 3)), fs, K(lt, 3)))
        h.ensure(f"ens.{ch}.beats-cover-bytes", z3.Implies(z3.And(ule(fs, lf), fits), z3.UGE(tot_t, tot_f)))            # announced beats x bytes per beat >= original bytes
        lo_f, hi_f = burst_range(fa, fl, fs); lo_t, hi_t = burst_range(ta, tl, ts)
        h.ensure(f"ens.{ch}.range-covers@size>=target-bus", z3.Implies(z3.And(legal, INCR, fits, z3.UGE(fs, K(lt, 3))), z3.And(tb == K(1, 2), z3.ULE(lo_t, lo_f), z3.UGE(hi_t, hi_f))))
        # --- expected to fail on the unchanged tree
        h.finding(f"finding.{ch}.fixed-multibeat", z3.Implies(z3.And(legal, FIXED, full, fl != K(0, 8), inb), ok),
                  "AXIDownConverter turns every FIXED burst into INCR: a FIXED burst of more than one beat (all beats at the same address, e.g. a FIFO port) is translated to an "
                  "INCR burst that walks len+1 consecutive wide words - beat k>0 goes to start + k*wide_bytes instead of start")
        h.finding(f"finding.{ch}.wrap-len-illegal", z3.Implies(z3.And(legal, WRAP, full), legal_t),
                  "AXIDownConverter multiplies the length of a WRAP burst by the ratio and keeps WRAP: a legal WRAP burst with (len+1)*ratio > 16 "
                  "(e.g. WRAP16 through 64->32) becomes a WRAP burst of 32..128 transfers, which AXI forbids (WRAP: 2, 4, 8 or 16 transfers)")
        h.finding(f"finding.{ch}.narrow-beat-address", z3.Implies(z3.And(legal, z3.ULT(fs, K(lf, 3)), z3.Not(z3.And(fl == K(0, 8), z3.UGE(fs, K(lt, 3)))), fits, inb), same_word),
                  "address view of the listed narrow-burst defect (len scaled as if every beat were full width): for size below the source bus width the narrow beat "
                  "k*ratio+j does not address sub-word j of the wide word of beat k")
        h.cover(f"cover.{ch}.wrap", z3.And(b(V(t.valid)), legal, WRAP, full, wrap16, k == K(1, 8)), depth=1)
        h.cover(f"cover.{ch}.narrow-single", z3.And(b(V(t.valid)), legal, nsingle), depth=1)
        h.cover(f"cover.{ch}.fixed", z3.And(b(V(t.valid)), legal, FIXED, full, fl == K(0, 8)), depth=1)
    h.bmc_depth = 2
    h.functions = ["litex.soc.interconnect.axi.axi_full.AXIDownConverter.__init__ (convert_addr/convert_len/convert_size/convert_burst)"]
    return h

# ---------------------------------------------------------------------------------------------------
@_guard
def c_up_bursts(dw_from, dw_to):
    """AXIUpConverter AW/AR: burst types and narrow transfers"""
    a, c = _ifs(dw_from, dw_to)
    d = _mk(AXIUpConverter, a, c)
    h = HwCheck(f"AXIUpConverter({dw_from}->{dw_to}).bursts", d, _env_inputs(a, c))
    V = h.v
    lf, lt = _log2(dw_from // 8), _log2(dw_to // 8); lr = lt - lf; r = 1 << lr
    for ch in ("aw", "ar"):
        f, t = getattr(a, ch), getattr(c, ch)
        fa, fl, fs, fb = V(f.addr), V(f.len), V(f.size), V(f.burst)
        ta, tl, ts, tb = V(t.addr), V(t.len), V(t.size), V(t.burst)
        i = h.const(f"{ch}_i", 8)                                             # narrow beat i -> wide beat i div r, lanes (i mod r)
        legal = amba_legal(fa, fl, fs, fb, lf)
        legal_t = amba_legal(ta, tl, ts, tb, lt)
        inb = z3.ULE(i, fl)
        full = fs == K(lf, 3)
        aligned = (fa & K((1 << lt) - 1, 32)) == K(0, 32)                      # start on a wide-word boundary
        FIXED, INCR, WRAP = fb == K(0, 2), fb == K(1, 2), fb == K(2, 2)
        q = z3.LShR(_Z(i), lr); jj = _Z(i) & K(r - 1, W)
        want = z3.LShR(amba_addr(fa, fl, fs, fb, i), lf)
        got = (z3.LShR(amba_addr(ta, tl, ts, tb, q), lt) << lr) + jj
        same_word = z3.And(tb != K(3, 2), got == want)
        ok = z3.And(same_word, ts == K(lt, 3))
        long_wrap = z3.UGE(_Z(fl) + 1, K(2 * r, W))
        h.ensure(f"ens.{ch}.beat-address@incr", z3.Implies(z3.And(legal, INCR, full, aligned, inb), ok))
        h.ensure(f"ens.{ch}.beat-address@wrap", z3.Implies(z3.And(legal, WRAP, full, aligned, long_wrap, inb), ok))
        h.ensure(f"ens.{ch}.beat-address@fixed-single", z3.Implies(z3.And(legal, FIXED, full, aligned, fl == K(0, 8), inb), ok))
        h.ensure(f"ens.{ch}.legal", z3.Implies(z3.And(legal, full, aligned, z3.Implies(WRAP, long_wrap), z3.Implies(FIXED, fl == K(0, 8))), legal_t))
        tot_f = (_Z(fl) + 1) << _Z(fs); tot_t = (_Z(tl) + 1) << _Z(ts)
        h.ensure(f"ens.{ch}.wrap-boundary", z3.Implies(z3.And(legal, WRAP, full, z3.UGE(_Z(fl) + 1, K(r, W))),
                                                        z3.And(tb == K(2, 2), tot_t == tot_f, (_Z(ta) & ~(tot_t - 1)) == (_Z(fa) & ~(tot_f - 1)))))
        h.ensure(f"ens.{ch}.size=size+log2(ratio)", z3.Implies(ule(fs, lf), zx(ts, 4) == zx(fs, 4) + K(lr, 4)))
        h.ensure(f"ens.{ch}.beats-cover-bytes", z3.Implies(ule(fs, lf), z3.UGE(tot_t, tot_f)))
        # "deliver all data beats with last on the final one": the data paths are driven by beat counts alone (C10_axi_datapath.py).  W (pack): a wide beat is closed by
        # every ratio-th narrow beat or by the narrow last, i.e. ceil((len+1)/ratio) wide beats - the announced length must be that number.  R (split): EVERY wide beat
        # is cut into `ratio` narrow beats, so the master gets ratio*(len_to+1) beats, last on the final one - that must be the len+1 beats it asked for
        beats_f = _Z(fl) + 1; beats_t = _Z(tl) + 1
        if ch == "aw":
            h.ensure("ens.aw.len-matches-datapath", beats_t == z3.LShR(beats_f + K(r - 1, W), lr))
        else:
            whole = (beats_f & K(r - 1, W)) == 0
            h.ensure("ens.ar.len-matches-datapath@whole-words", z3.Implies(whole, (beats_t << lr) == beats_f))
            h.finding("finding.ar.surplus-read-beats", z3.Implies(z3.Not(whole), (beats_t << lr) == beats_f),
                      "AXIUpConverter R: every wide beat is split into `ratio` narrow beats whatever the requested length: a read burst whose length is not a multiple of the ratio "
                      "(every single-beat read, e.g. a 32-bit load through 32->64) is answered with ratio*ceil((len+1)/ratio) data beats - the master receives beats it did not "
                      "ask for and `last` comes on a surplus beat, not on beat len")
        h.finding(f"finding.{ch}.fixed-multibeat", z3.Implies(z3.And(legal, FIXED, full, aligned, fl != K(0, 8), inb), ok),
                  "AXIUpConverter keeps FIXED and divides len: the narrow beats of a FIXED burst (all at the same narrow word) are packed by beat index into "
                  "successive lanes of a wide beat, so beat i (i mod ratio != 0) lands in another narrow word than the one the master addressed")
        h.finding(f"finding.{ch}.wrap-short", z3.Implies(z3.And(legal, WRAP, full, aligned), legal_t),
                  "AXIUpConverter shifts the length of a WRAP burst and keeps WRAP: a legal WRAP burst of fewer than 2*ratio transfers (e.g. WRAP2 through 32->64) "
                  "becomes a WRAP burst of ONE transfer, which AXI forbids (WRAP: 2, 4, 8 or 16 transfers); with fewer than ratio transfers the container also grows")
        h.finding(f"finding.{ch}.unaligned-start-any-burst", z3.Implies(z3.And(legal, full, z3.Not(aligned), inb), same_word),
                  "same root cause as the listed finding.a?.unaligned-start (start address kept, data packed by beat index), stated for every burst type and length: a "
                  "burst that starts off a wide-word boundary (single 32-bit access at address 4 through 32->64) has its data in lanes 0.. although the address selects the upper lanes")
        if lf > 0: h.finding(f"finding.{ch}.narrow-lanes", z3.Implies(z3.And(legal, INCR, z3.ULT(fs, K(lf, 3)), aligned, fl != K(0, 8), inb), same_word),
                  "AXIUpConverter packs by beat index whatever the size (the code notes the assumption of full-width bursts): for a narrow INCR burst (size below the "
                  "source bus width, several beats per narrow word) beat i is put into lane group i mod ratio although its address stays in the same narrow word")
        h.cover(f"cover.{ch}.wrap", z3.And(b(V(t.valid)), legal, WRAP, full, aligned, long_wrap, i == K(3, 8), inb), depth=1)
        h.cover(f"cover.{ch}.fixed", z3.And(b(V(t.valid)), legal, FIXED, full, aligned, fl == K(0, 8)), depth=1)
    h.bmc_depth = 2
    h.functions = ["litex.soc.interconnect.axi.axi_full.AXIUpConverter.__init__ (AW/AR translation)"]
    return h

# ---------------------------------------------------------------------------------------------------
# side bands
AX_SIDE = ("id", "lock", "prot", "cache", "qos", "region", "user", "dest")

def _held2(h, ep, sigs, tag, note):
    """AXI rule for the partner that drives `ep`: valid and the whole payload stay until ready"""
    t = cat(*[h.v(s) for s in sigs])
    p_off = h.prev(f"{tag}.offer", bv1(z3.And(b(h.v(ep.valid)), z3.Not(b(h.v(ep.ready)))))); p_tok = h.prev(f"{tag}.tok", t)
    h.assume(z3.Implies(b(p_off), z3.And(b(h.v(ep.valid)), t == p_tok)), note)

def _hold2(h, name, ep, sigs):
    t = cat(*[h.v(s) for s in sigs]); stalled = z3.And(b(h.v(ep.valid)), z3.Not(b(h.v(ep.ready))))
    h.ensure_seq(name, lambda at: z3.Implies(at(stalled, 0), z3.And(at(b(h.v(ep.valid)), 1), at(t, 1) == at(t, 0))))

def _side(ep, names): return [getattr(ep, n) for n in names if hasattr(ep, n)]

def _split_side(h, d, tag, sink, source, side, ratio, conv_name, strb_lanes=None):
    """wide -> narrow, combinational: every narrow beat carries the side band of the wide beat it is cut from"""
    V = h.v
    sv = b(V(source.valid))
    h.ensure(f"ens.{tag}.sideband", z3.Implies(sv, z3.And(*[V(getattr(source, s)) == V(getattr(sink, s)) for s in side])))
    _hold2(h, f"ens.{tag}.sideband-hold", source, _side(source, side))
    if strb_lanes:
        # narrow transfers: the byte lanes outside the transfer carry no strobes (AXI A3.4.3), so a narrow beat cut from lanes that are all outside the
        # transfer (a surplus beat of the translated burst) writes nothing.  M: any set of active byte lanes (rigid, arbitrary)
        n = strb_lanes; GW = max(2, ratio.bit_length())
        idx = h.ghost(f"{tag}.idx", GW); out_fire = _fire(h, source)
        h.ghost_next(idx, z3.If(out_fire, z3.If(idx == K(ratio - 1, GW), K(0, GW), idx + 1), idx))
        h.hint(f"{tag}.idx<ratio", ult(idx, ratio))
        cv = _inner(d, conv_name); mux = L(cv, "mux") if cv is not None else None
        if mux is not None and mux in h.ts.var: h.hint(f"{tag}.mux=idx", zx(V(mux), GW) == idx)
        else: h.use_auto = True
        M = h.const(f"{tag}_active_lanes", n * ratio)
        def chunk(x):
            e = _lane(x, ratio - 1, n)
            for i in reversed(range(ratio - 1)): e = z3.If(idx == K(i, GW), _lane(x, i, n), e)
            return e
        inside = (V(sink.strb) & ~M) == K(0, n * ratio)
        h.ensure(f"ens.{tag}.surplus-beat-strobes-zero", z3.Implies(z3.And(sv, inside, chunk(M) == K(0, n)), V(source.strb) == K(0, n)))
        h.ensure(f"ens.{tag}.strobes-inside-transfer", z3.Implies(z3.And(sv, inside), (V(source.strb) & ~chunk(M)) == K(0, n)))
        h.cover(f"cover.{tag}.surplus-beat", z3.And(out_fire, inside, chunk(M) == K(0, n), M != K(0, n * ratio), V(sink.strb) == M), depth=ratio + 1)

def _pack_ghosts(h, d, tag, sink, source, ratio, conv_name):
    """narrow -> wide through the one-register _UpConverter: position ghosts and the hints that tie them to the real registers"""
    V = h.v; GW = max(2, (ratio + 1).bit_length())
    in_fire, out_fire = _fire(h, sink), _fire(h, source)
    acc_n = h.ghost(f"{tag}.acc_n", GW); w_valid = h.ghost(f"{tag}.w_valid", 1)
    complete = z3.And(in_fire, z3.Or(acc_n == K(ratio - 1, GW), b(V(sink.last))))
    h.ghost_next(acc_n, z3.If(in_fire, z3.If(complete, K(0, GW), acc_n + 1), acc_n))
    h.ghost_next(w_valid, z3.If(complete, K(1, 1), z3.If(out_fire, K(0, 1), w_valid)))
    wv = b(w_valid)
    h.hint(f"{tag}.acc_n<ratio", ult(acc_n, ratio)); h.hint(f"{tag}.w->acc0", z3.Implies(wv, acc_n == K(0, GW)))
    cv = _inner(d, conv_name); ok = False
    if cv is not None:
        dm, st = L(cv, "demux"), L(cv, "strobe_all")
        if dm is not None and st is not None and dm in h.ts.var and st in h.ts.var:
            h.hint(f"{tag}.demux=acc_n", zx(V(dm), GW) == acc_n); h.hint(f"{tag}.strobe=w_valid", V(st) == w_valid); ok = True
    if not ok: h.use_auto = True
    return complete, wv, in_fire, out_fire

def _pack_side(h, d, tag, sink, source, side, ratio, conv_name, finding=None, resp=False):
    """narrow -> wide (one cycle of latency): the wide beat carries the side band of the narrow beat that completed it, from the cycle it is offered until it is taken"""
    V = h.v
    complete, wv, in_fire, out_fire = _pack_ghosts(h, d, tag, sink, source, ratio, conv_name)
    gs = {}
    for s in side:
        g = h.ghost(f"{tag}.{s}", getattr(sink, s).nbits); h.ghost_next(g, z3.If(complete, V(getattr(sink, s)), g)); gs[s] = g
    sv = b(V(source.valid))
    h.ensure(f"ens.{tag}.present", sv == wv)
    clause = z3.Implies(sv, z3.And(*[V(getattr(source, s)) == gs[s] for s in side]))
    if finding is None:
        for s in side: h.hint(f"{tag}.side.{s}", z3.Implies(wv, V(getattr(source, s)) == gs[s]))
        h.ensure(f"ens.{tag}.sideband", clause)
        _hold2(h, f"ens.{tag}.sideband-hold", source, _side(source, side))
    else:
        h.finding(finding[0], clause, finding[1])
    h.cover(f"cover.{tag}.second-wide-beat", z3.And(out_fire, in_fire), depth=2 * ratio + 2)

@_guard
def c_sideband(kind, dw_n, ratio, version="axi4"):
    """every side-band field of the five channels through the real converter"""
    dw_w = dw_n * ratio
    a, c = _ifs(dw_n, dw_w, version) if kind == "up" else _ifs(dw_w, dw_n, version)
    d = _mk(AXIUpConverter if kind == "up" else AXIDownConverter, a, c)
    name = f"AXI{'Up' if kind == 'up' else 'Down'}Converter({a.data_width}->{c.data_width}{'' if version == 'axi4' else ',' + version}).sideband"
    h = HwCheck(name, d, _env_inputs(a, c))
    V = h.v; n = dw_n // 8
    # AW / AR: combinational pass-through of every field the converter does not translate, on the same handshake
    for ch in ("aw", "ar"):
        f, t = getattr(a, ch), getattr(c, ch)
        for s in AX_SIDE: h.ensure(f"ens.{ch}.{s}", V(getattr(t, s)) == V(getattr(f, s)))
        h.ensure(f"ens.{ch}.handshake", z3.And(V(t.valid) == V(f.valid), V(f.ready) == V(t.ready)))
    # B: pass-through
    for s in ("id", "resp", "user", "dest"): h.ensure(f"ens.b.{s}", V(getattr(a.b, s)) == V(getattr(c.b, s)))
    h.ensure("ens.b.handshake", z3.And(V(a.b.valid) == V(c.b.valid), V(c.b.ready) == V(a.b.ready)))
    wside = ["id", "user", "dest"]; rside = ["id", "user", "dest"]
    _held2(h, a.w, [a.w.data, a.w.strb, a.w.last] + _side(a.w, wside), "w", "AXI master holds W valid and data/strb/last/id/user until ready (AXI A3.2.1)")
    _held2(h, c.r, [c.r.data, c.r.resp, c.r.last] + _side(c.r, rside), "r", "AXI slave holds R valid and data/resp/last/id/user until ready (AXI A3.2.1)")
    if kind == "down":
        _split_side(h, d, "w", a.w, c.w, wside, ratio, "w_converter", strb_lanes=n)
        _pack_side(h, d, "r", c.r, a.r, rside, ratio, "r_converter")
    else:
        _pack_side(h, d, "w", a.w, c.w, wside, ratio, "w_converter", finding=("finding.w.sideband-latency",
                   "AXIUpConverter W: id/user/dest of the wide beat are wired combinationally to the narrow W port although the packed beat is offered one cycle after its last "
                   "narrow beat was taken: the wide beat shows the side band of whatever the master drives next (WID of the following burst on AXI3, WUSER on AXI4), also "
                   "changing while the beat is stalled (native replay tools/replay_axi_up_wid_latency.py)"))
        _split_side(h, d, "r", c.r, a.r, rside + ["resp"], ratio, "r_converter")
    h.bmc_depth = 2 * ratio + 4
    h.functions = [f"litex.soc.interconnect.axi.axi_full.AXI{'Up' if kind == 'up' else 'Down'}Converter.__init__ (side bands of AW/W/B/AR/R)"]
    return h

# ---------------------------------------------------------------------------------------------------
# AXIConverter: the dispatch class
class _Twin(Module):
    """harness: the dispatching AXIConverter and the converter it must select (the reference, under contract in C10_axi_burst/C10_axi_datapath and above),
    both driven by the same AXI master and the same AXI slave"""
    def __init__(self, ref_cls, dw_from, dw_to):
        self.a, self.c = _ifs(dw_from, dw_to); self.a2, self.c2 = _ifs(dw_from, dw_to)
        self.submodules.dut = AXIConverter(self.a, self.c)
        self.submodules.ref = ref_cls(self.a2, self.c2)
        for ch in ("aw", "w", "ar"):
            x, y = getattr(self.a, ch), getattr(self.a2, ch)
            self.comb += [y.valid.eq(x.valid), y.first.eq(x.first), y.last.eq(x.last)] + [s2.eq(s1) for s1, s2 in zip(pay(x), pay(y))]
            self.comb += getattr(self.c2, ch).ready.eq(getattr(self.c, ch).ready)
        for ch in ("b", "r"):
            x, y = getattr(self.c, ch), getattr(self.c2, ch)
            self.comb += [y.valid.eq(x.valid), y.first.eq(x.first), y.last.eq(x.last)] + [s2.eq(s1) for s1, s2 in zip(pay(x), pay(y))]
            self.comb += getattr(self.a2, ch).ready.eq(getattr(self.a, ch).ready)

def _regs_of(mod):
    """registers of a finalized submodule in creation order (hints only)"""
    try:
        fr = mod._fragment; regs = set()
        for st in fr.sync.values(): regs |= list_targets(st)
        return sorted(regs, key=lambda s: s.duid)
    except Exception: return None

@_guard
def c_dispatch(dw_from, dw_to):
    """AXIConverter(master, slave) behaves, cycle by cycle and on every output, as the converter selected by the width ratio"""
    ref_cls = AXIDownConverter if dw_from > dw_to else AXIUpConverter
    d = _mk(_Twin, ref_cls, dw_from, dw_to)
    h = HwCheck(f"AXIConverter({dw_from}->{dw_to})=={ref_cls.__name__}", d, _env_inputs(d.a, d.c))
    V = h.v
    ra, rb = _regs_of(d.dut), _regs_of(d.ref)
    if ra is not None and rb is not None and len(ra) == len(rb) and all(x.nbits == y.nbits for x, y in zip(ra, rb)) and all(x in h.ts.var and y in h.ts.var for x, y in zip(ra, rb)):
        for n_, (x, y) in enumerate(zip(ra, rb)): h.hint(f"reg{n_}.equal", V(x) == V(y))
    else: h.use_auto = True
    for ch in ("aw", "w", "ar", "b", "r"):
        src, src2 = (d.c, d.c2) if ch in ("aw", "w", "ar") else (d.a, d.a2)
        dst, dst2 = (d.a, d.a2) if ch in ("aw", "w", "ar") else (d.c, d.c2)
        e, e2 = getattr(src, ch), getattr(src2, ch)
        sigs = [e.valid, e.first, e.last] + pay(e); sigs2 = [e2.valid, e2.first, e2.last] + pay(e2)
        h.ensure(f"ens.{ch}.equal", z3.And(*[V(x) == V(y) for x, y in zip(sigs, sigs2)]))
        h.ensure(f"ens.{ch}.ready-equal", V(getattr(dst, ch).ready) == V(getattr(dst2, ch).ready))
    lr = abs(_log2(dw_from) - _log2(dw_to)); r = 1 << lr
    h.cover("cover.packed-beat-delivered", _fire(h, d.a.r) if dw_from > dw_to else _fire(h, d.c.w), depth=r + 2)
    h.cover("cover.split-last", z3.And(_fire(h, d.c.w), b(V(d.c.w.last))) if dw_from > dw_to else z3.And(_fire(h, d.a.r), b(V(d.a.r.last))), depth=r + 1)
    h.cover("cover.request", z3.And(_fire(h, d.c.aw), V(d.c.aw.len) != K(0, 8)), depth=1)
    h.bmc_depth = 2 * r + 4
    h.functions = ["litex.soc.interconnect.axi.axi_full.AXIConverter.__init__"]
    return h

@_guard
def c_passthrough(dw):
    """equal widths: AXIConverter is a wire in both directions, for every signal of the five channels, in every cycle"""
    a, c = _ifs(dw, dw)
    d = _mk(AXIConverter, a, c)
    h = HwCheck(f"AXIConverter({dw}->{dw})", d, _env_inputs(a, c))
    V = h.v
    for ch in ("aw", "w", "ar", "b", "r"):
        m2s = ch in ("aw", "w", "ar")
        src, dst = (getattr(a, ch), getattr(c, ch)) if m2s else (getattr(c, ch), getattr(a, ch))
        for nm in ["valid", "first", "last"] + [f[0] for f in src.description.payload_layout + src.description.param_layout]:
            h.ensure(f"ens.{ch}.{nm}", V(getattr(dst, nm)) == V(getattr(src, nm)))
        h.ensure(f"ens.{ch}.ready", V(src.ready) == V(dst.ready))
    h.cover("cover.request", z3.And(_fire(h, c.aw), V(c.aw.burst) == K(2, 2)), depth=1)
    h.cover("cover.read-data", z3.And(_fire(h, a.r), b(V(a.r.last))), depth=1)
    h.bmc_depth = 2
    h.functions = ["litex.soc.interconnect.axi.axi_full.AXIConverter.__init__ (equal widths)", "litex.soc.interconnect.axi.axi_common.connect_axi"]
    return h

# ---------------------------------------------------------------------------------------------------
# AXIBurst2Beat with a wide id
@contextlib.contextmanager
def _patched(mod, **kw):
    old = {k: getattr(mod, k) for k in kw}
    for k, v in kw.items(): setattr(mod, k, v)
    try: yield
    finally:
        for k, v in old.items(): setattr(mod, k, v)

@_guard
def c_b2b_id(AW, maxsize, idw):
    """every clause of C10_axi_burst.c_burst2beat (AMBA beat addresses, first/last, consumed once, id) re-proved at id_width=idw (its stream interfaces are built
    with id_width=1: the constructor is parameterised here), plus the AXI hold rule for the WHOLE beat: valid, addr, first, last and id"""
    orig = B.AXIStreamInterface; made = []
    def wide_id(*a, **k):
        k["id_width"] = idw; made.append(orig(*a, **k)); return made[-1]
    with _patched(B, AXIStreamInterface=wide_id, mk=_mk):
        h = B.c_burst2beat(AW, maxsize)
    ax_burst, ax_beat = made[0], made[1]                  # c_burst2beat builds the burst (request) stream first, then the beat stream
    V = h.v
    if not (hasattr(ax_burst, "len") and not hasattr(ax_beat, "len") and V(ax_beat.id).size() == idw and V(ax_burst.id).size() == idw):
        raise SidecarMismatch("C10_axi_burst.c_burst2beat no longer builds (ax_burst, ax_beat) in this order")
    h.name = f"AXIBurst2Beat(aw={AW},id={idw})"
    stalled = z3.And(b(V(ax_beat.valid)), z3.Not(b(V(ax_beat.ready))))
    tok = cat(V(ax_beat.addr), V(ax_beat.first), V(ax_beat.last), V(ax_beat.id))
    h.ensure_seq("ens.hold-whole-beat", lambda at: z3.Implies(at(stalled, 0), z3.And(at(b(V(ax_beat.valid)), 1), at(tok, 1) == at(tok, 0))))
    for nm, s in (("first", ax_beat.first), ("id", ax_beat.id)):
        h.ensure_seq(f"ens.hold.{nm}", lambda at, s=s: z3.Implies(at(stalled, 0), at(V(s), 1) == at(V(s), 0)))
    # the id of every beat of the burst, not only while the request is visible: a beat is only offered while its request is (ens.valid + assumption), so this is ens.id; cover a wide id value
    h.cover("cover.wide-id", z3.And(b(V(ax_beat.valid)), b(V(ax_beat.ready)), V(ax_burst.id) == K((1 << idw) - 2, idw), z3.Not(b(V(ax_beat.first)))), depth=3)
    return h

# ---------------------------------------------------------------------------------------------------
def cases(tier):
    cs = [VCase("AXIDownConverter(64->32).bursts", c_down_bursts, 64, 32), VCase("AXIDownConverter(128->32).bursts", c_down_bursts, 128, 32),
          VCase("AXIDownConverter(256->32).bursts", c_down_bursts, 256, 32),
          VCase("AXIUpConverter(32->64).bursts", c_up_bursts, 32, 64), VCase("AXIUpConverter(32->128).bursts", c_up_bursts, 32, 128),
          VCase("AXIUpConverter(32->256).bursts", c_up_bursts, 32, 256),
          VCase("AXIDownConverter(64->32).sideband", c_sideband, "down", 32, 2), VCase("AXIDownConverter(128->32).sideband", c_sideband, "down", 32, 4),
          VCase("AXIUpConverter(32->64).sideband", c_sideband, "up", 32, 2), VCase("AXIUpConverter(32->128).sideband", c_sideband, "up", 32, 4),
          VCase("AXIUpConverter(32->64,axi3).sideband", c_sideband, "up", 32, 2, "axi3"), VCase("AXIDownConverter(64->32,axi3).sideband", c_sideband, "down", 32, 2, "axi3"),
          VCase("AXIConverter(64->32)==AXIDownConverter", c_dispatch, 64, 32), VCase("AXIConverter(32->64)==AXIUpConverter", c_dispatch, 32, 64),
          VCase("AXIConverter(32->32)", c_passthrough, 32),
          VCase("AXIBurst2Beat(aw=16,id=4)", c_b2b_id, 16, 7, 4), VCase("AXIBurst2Beat(aw=32,id=8)", c_b2b_id, 32, 3, 8)]
    if tier == "thorough":
        cs += [VCase("AXIDownConverter(128->64).bursts", c_down_bursts, 128, 64), VCase("AXIDownConverter(16->8).bursts", c_down_bursts, 16, 8),
               VCase("AXIUpConverter(64->128).bursts", c_up_bursts, 64, 128), VCase("AXIUpConverter(8->16).bursts", c_up_bursts, 8, 16),
               VCase("AXIDownConverter(256->32).sideband", c_sideband, "down", 32, 8), VCase("AXIUpConverter(32->256).sideband", c_sideband, "up", 32, 8),
               VCase("AXIConverter(128->32)==AXIDownConverter", c_dispatch, 128, 32), VCase("AXIConverter(32->256)==AXIUpConverter", c_dispatch, 32, 256),
               VCase("AXIConverter(64->64)", c_passthrough, 64), VCase("AXIConverter(8->8)", c_passthrough, 8)]
    return cs

ASSUMPTIONS = ["converter address channels: the clauses quantify over AXI-legal bursts of the master only (size within the bus; WRAP 2/4/8/16 transfers with a start aligned to the transfer size; "
               "INCR inside a 4KB page; FIXED up to 16 transfers) - legality is an antecedent of each clause, not an assumption on other clauses",
               "beat k / sub-word j / beat i of the beat-address clauses are rigid symbolic constants: each proved clause holds for every beat of the burst",
               "the beat-address clauses take the lane map of the data paths (narrow beat k*ratio+j <-> lanes j of wide beat k; proved in C10_axi_datapath.py) as the definition of which bytes a beat carries",
               "side bands: the partner that drives a data channel holds valid and the whole payload, side band included, until ready (AXI A3.2.1)",
               "surplus-beat clause: M is an arbitrary fixed set of active byte lanes; the antecedent `strobes inside M` is the AXI rule that lanes outside a narrow transfer carry no strobes",
               "burst-type cases are AXI4 interfaces (8-bit len, 3-bit size); AXI3 is elaborated in the side-band cases only (WID)",
               "AXIConverter equivalence: the reference converter is the real class instantiated a second time in the same harness module and fed the same inputs by harness wires"]
