"""C15 (clients of the event manager): Timer.ev.zero, UART.ev.tx/ev.rx (with the RX FIFO pop on clear), gpio._GPIOIRQ.
Each client is elaborated behind a real csr_bus.CSRBank; the bus master is unconstrained.  The event of each source is
stated on what software can observe / what the CSR descriptions and code comments document:
  Timer  : "zero" = the countdown value reaches 0 (value == 0 now, != 0 the cycle before)
  UART   : "tx" = TX FIFO becomes non-full (txfull 1 -> 0), "rx" = RX FIFO becomes non-empty (rxempty 1 -> 0)
           (uart.py comments "IRQ (When FIFO becomes non-full)" / "IRQ (When FIFO becomes non-empty)");
           acknowledging rx pops exactly one byte of the RX FIFO (rx_fifo.source.ready = ev.rx.clear)
  GPIO   : per pin, mode 0 = Edge (edge 0 = rising, 1 = falling), mode 1 = Change (CSR descriptions of _mode/_edge)."""
import z3
from vf.elab import L, locals_of, mk
from vf.hw import *
from migen import *
from litex.gen import LiteXModule
from litex.soc.interconnect import csr_bus
from litex.soc.cores.timer import Timer
from litex.soc.cores.uart import UART
from litex.soc.cores.gpio import GPIOIn, GPIOTristate
from vf.core import Case   # after migen's star import

def _top(make):
    class Top(LiteXModule):
        def __init__(self):
            self.c = make()
            self.bus = csr_bus.Interface(data_width=32, address_width=14)
            self.bank = csr_bus.CSRBank(self.c.get_csrs(), address=0, bus=self.bus)
    return mk(Top)

def _bus_inputs(d): return [d.bus.adr, d.bus.we, d.bus.re, d.bus.dat_w]
def _bit(x, i): return z3.Extract(i, i, x)

def _sel(h, d, csr, strobe):
    """bus access (strobe = bus.we or bus.re) that addresses the (single word) register `csr` of the bank at page 0"""
    sc = csr if csr in d.bank.simple_csrs else csr.get_simple_csrs()[0]
    idx = d.bank.simple_csrs.index(sc)
    return z3.And(b(h.v(strobe)), z3.Extract(8, 0, h.v(d.bus.adr)) == K(idx, 9), z3.Extract(13, 9, h.v(d.bus.adr)) == K(0, 5))

def event_clauses(h, d, ev, srcs, events, names, noevents=None, set_ok=None):
    """the C15 clauses for the edge sources `srcs` of manager `ev`.
    events[i]  : the documented event of source i in the current cycle (Bool)
    noevents[i]: "certainly no event" (defaults to Not(events[i])); used by the clear / no-spurious clauses
    set_ok[i]  : restriction of the set/race clauses (None = everywhere); the complement is stated as a finding by the caller"""
    n = len(srcs)
    pend = [h.v(s.pending) for s in srcs]; clear = [h.v(s.clear) for s in srcs]
    en = h.v(ev.enable.storage)
    for i, s in enumerate(srcs):
        td = L(s, "trigger_d")
        if td is not None and td in h.ts.var: h.hint(f"td.{names[i]}", h.v(td) == h.prev(f"trig.{names[i]}", h.v(s.trigger)))
    # irq line == some event pending and enabled
    h.ensure("ens.irq", b(h.v(ev.irq)) == z3.Or(*[z3.And(b(pend[i]), b(_bit(en, i))) for i in range(n)]))
    for i, s in enumerate(srcs):
        nm = names[i]; evt = events[i]; noevt = z3.Not(evt) if noevents is None else noevents[i]
        evt_s = evt if set_ok is None or set_ok[i] is None else z3.And(evt, set_ok[i])
        h.ensure(f"ens.{nm}.set",  z3.Implies(evt_s, b(h.n(s.pending))))                                        # pending no later than the cycle after the event
        h.ensure(f"ens.{nm}.race", z3.Implies(z3.And(evt_s, b(clear[i])), b(h.n(s.pending))))                   # event coinciding with the clear is retained
        h.ensure(f"ens.{nm}.keep", z3.Implies(z3.And(b(pend[i]), z3.Not(b(clear[i]))), b(h.n(s.pending))))      # stays pending until acknowledged (whatever happens to the OTHER bits)
        h.ensure(f"ens.{nm}.clr",  z3.Implies(z3.And(b(clear[i]), noevt), z3.Not(b(h.n(s.pending)))))
        h.ensure(f"ens.{nm}.nospurious", z3.Implies(z3.And(z3.Not(b(pend[i])), noevt), z3.Not(b(h.n(s.pending)))))
        # clear_i only from a write of 1 to bit i of the pending register
        h.ensure(f"ens.{nm}.clearsrc", b(clear[i]) == z3.And(b(h.v(ev.pending.re)), b(_bit(h.v(ev.pending.r), i))))
    # software view through the real bank: a bus write to the pending register with bit i set acknowledges exactly source i, one cycle later
    wr = _sel(h, d, ev.pending, d.bus.we)
    for i, s in enumerate(srcs):
        h.ensure(f"ens.{names[i]}.swclear", b(h.n(s.clear)) == z3.And(wr, b(_bit(h.v(d.bus.dat_w), i))))
    # registers: pending word = pending bits, status word = raw trigger levels; both readable over the bus (data one cycle after the access)
    pw = cat(*[h.v(s.pending) for s in reversed(srcs)]); sw = cat(*[h.v(s.trigger) for s in reversed(srcs)])
    h.ensure("ens.pendingreg", h.v(ev.pending.status) == pw)
    h.ensure("ens.statusreg",  h.v(ev.status.status) == sw)
    h.ensure("ens.swread.pending", z3.Implies(_sel(h, d, ev.pending, d.bus.re), h.n(d.bus.dat_r) == zx(pw, 32)))
    h.ensure("ens.swread.status",  z3.Implies(_sel(h, d, ev.status, d.bus.re),  h.n(d.bus.dat_r) == zx(sw, 32)))
    h.ensure("ens.swenable", z3.Implies(_sel(h, d, ev.enable, d.bus.we), h.n(ev.enable.storage) == z3.Extract(n - 1, 0, h.v(d.bus.dat_w))))
    return pend, clear

# ---------------------------------------------------------------------------------------------------
def c_timer(width=8):
    d = _top(lambda: Timer(width)); t = d.c; ev = t.ev; z = ev.zero
    h = HwCheck(f"Timer({width}).ev.zero", d, _bus_inputs(d))
    value = L(t, "value")
    if value is None or value not in h.ts.var:
        value = [s for s in h.ts.state if s.nbits == width and s not in (t._load.storage, t._reload.storage, t._value.status)][0]
    V = h.v(value); zero = V == K(0, width)
    pz = h.prev("zero", bv1(zero))                        # history before reset: "not zero" (as the edge detector's reset value)
    crossing = z3.And(zero, z3.Not(b(pz)))                # the count reaches zero
    pend, clear = event_clauses(h, d, ev, [z], [crossing], ["zero"])
    h.ensure("ens.zero.level", b(h.v(z.trigger)) == zero)                                        # status bit = raw level "count is zero"
    # a zero crossing is never lost: specification latch (set on a crossing, reset by an acknowledge without a crossing)
    owed = h.ghost("owed", 1); h.ghost_next(owed, z3.If(crossing, K(1, 1), z3.If(b(clear[0]), K(0, 1), owed)))
    h.hint("owed=pending", owed == pend[0])
    td = L(z, "trigger_d")
    if td is not None and td in h.ts.var: h.hint("td=pz", h.v(td) == pz)
    h.ensure("ens.zero.neverlost", z3.Implies(b(owed), b(pend[0])))
    # periodic operation: every period gives a fresh event (cover: acknowledged once, pending again)
    acked = h.ghost("acked", 1); h.ghost_next(acked, z3.If(z3.And(b(clear[0]), b(pend[0])), K(1, 1), acked))
    h.cover("cover.irq", b(h.v(ev.irq)), depth=8)
    h.cover("cover.again", z3.And(b(acked), b(pend[0]), b(h.v(t._en.storage)), z3.Not(zero)), depth=14)
    h.cover("cover.race", z3.And(crossing, b(clear[0]), b(h.v(t._en.storage))), depth=14)
    h.bmc_depth = 12
    h.functions = ["litex.soc.cores.timer.Timer.__init__ (ev.zero)", "litex.soc.interconnect.csr_eventmanager.EventManager.do_finalize",
                   "litex.soc.interconnect.csr_eventmanager.EventSourceProcess.__init__", "litex.soc.interconnect.csr_bus.CSRBank (flattened)"]
    return h

# ---------------------------------------------------------------------------------------------------
def ghost_queue(h, name, push, din, pop, cap):
    """ghost FIFO of `cap`+1 slots (one slack) of din-wide words"""
    W = din.size(); CAPG = cap + 1; LW = max(3, (CAPG + 1).bit_length())
    qlen = h.ghost(f"{name}.len", LW); q = [h.ghost(f"{name}.q{i}", W) for i in range(CAPG)]
    plen = z3.If(pop, qlen - 1, qlen)
    pq = [z3.If(pop, q[i + 1] if i + 1 < CAPG else q[i], q[i]) for i in range(CAPG)]
    h.ghost_next(qlen, z3.If(push, plen + 1, plen))
    for i in range(CAPG): h.ghost_next(q[i], z3.If(z3.And(push, plen == K(i, LW)), din, pq[i]))
    h.hint(f"{name}.len<=cap", ule(qlen, cap))
    return qlen, q, plen

def buffered_fifo_hints(h, name, sf, depth, qlen, q):
    """representation invariant of stream.SyncFIFO(depth >= 2, buffered=True) for a ghost queue of the data byte"""
    outer = sf.fifo; inner = outer.fifo; lf = locals_of(inner)
    produce, consume, storage = lf.get("produce"), lf.get("consume"), lf.get("storage")
    if produce is None or consume is None or storage is None or storage not in h.ts.mems: return False
    mem = h.ts.mems[storage]; rd = outer.readable; W = q[0].size()
    def word(i):
        idx = zx(h.v(consume), 8) + K(i, 8)
        idx = z3.If(z3.UGE(idx, K(depth, 8)), idx - K(depth, 8), idx)
        r = h.v(mem[depth - 1])
        for j in reversed(range(depth - 1)): r = z3.If(idx == K(j, 8), h.v(mem[j]), r)
        return z3.Extract(W - 1, 0, r)       # fifo word (low -> high): payload data, first, last
    h.hint(f"{name}.level", zx(h.v(inner.level), 8) + zx(h.v(rd), 8) == zx(qlen, 8))
    h.hint(f"{name}.ptr", z3.URem(zx(h.v(consume), 8) + zx(h.v(inner.level), 8), K(depth, 8)) == zx(h.v(produce), 8))
    h.hint(f"{name}.c", ult(h.v(consume), depth)); h.hint(f"{name}.p", ult(h.v(produce), depth)); h.hint(f"{name}.l", ule(h.v(inner.level), depth))
    h.hint(f"{name}.out", z3.Implies(b(h.v(rd)), h.v(sf.source.data) == q[0]))
    for i in range(depth):
        if i + 1 < len(q): h.hint(f"{name}.slotA{i}", z3.Implies(z3.And(b(h.v(rd)), ugt(h.v(inner.level), i)), word(i) == q[i + 1]))
        h.hint(f"{name}.slotB{i}", z3.Implies(z3.And(z3.Not(b(h.v(rd))), ugt(h.v(inner.level), i)), word(i) == q[i]))
    return True

def c_uart(tx_depth=2, rx_depth=2, rx_we=False):
    d = _top(lambda: UART(None, tx_fifo_depth=tx_depth, rx_fifo_depth=rx_depth, rx_fifo_rx_we=rx_we)); u = d.c; ev = u.ev
    phy_in = [u.sink.valid, u.sink.data, u.sink.first, u.sink.last, u.source.ready]
    h = HwCheck(f"UART(tx{tx_depth},rx{rx_depth},rx_we={rx_we}).ev", d, phy_in + _bus_inputs(d))
    X = h.v
    txfull = b(X(u._txfull.status)); rxempty = b(X(u._rxempty.status))
    p_txfull = h.prev("txfull", X(u._txfull.status), init=1)      # history before reset: "full" / "empty" (no event has been seen yet)
    p_rxempty = h.prev("rxempty", X(u._rxempty.status), init=1)
    ev_tx = z3.And(z3.Not(txfull), b(p_txfull))                    # TX FIFO becomes non-full
    ev_rx = z3.And(z3.Not(rxempty), b(p_rxempty))                  # RX FIFO becomes non-empty
    srcs = [ev.tx, ev.rx]                                          # bit 0 = tx, bit 1 = rx (creation order; generated csr.h: UART_EV_TX 0x1, UART_EV_RX 0x2)
    pend, clear = event_clauses(h, d, ev, srcs, [ev_tx, ev_rx], ["tx", "rx"])
    h.ensure("ens.tx.level", b(X(ev.tx.trigger)) == z3.Not(txfull))
    h.ensure("ens.rx.level", b(X(ev.rx.trigger)) == z3.Not(rxempty))
    for nm, s, p_ in (("tx", ev.tx, p_txfull), ("rx", ev.rx, p_rxempty)):
        td = L(s, "trigger_d")
        if td is not None and td in h.ts.var: h.hint(f"td2.{nm}", X(td) == ~p_)
    # ---- RX FIFO: ghost queue of the bytes accepted from the PHY; the CSR shows its head; an acknowledge of rx pops exactly one byte
    rxf, txf = u.rx_fifo, u.tx_fifo
    rx_push = z3.And(b(X(u.sink.valid)), b(X(u.sink.ready))); rx_pop = z3.And(b(X(rxf.source.valid)), b(X(rxf.source.ready)))
    rql, rq, rplen = ghost_queue(h, "rx", rx_push, X(u.sink.data), rx_pop, rx_depth + 1)
    buffered_fifo_hints(h, "rx", rxf, rx_depth, rql, rq)
    rd_rxtx = _sel(h, d, u._rxtx, d.bus.re)
    pop_cmd = z3.Or(b(clear[1]), rd_rxtx) if rx_we else b(clear[1])
    h.ensure("ens.rx.pop",   rx_pop == z3.And(pop_cmd, z3.Not(rxempty)))                                     # exactly the acknowledge (and, if configured, the data read) pops; nothing else does
    h.ensure("ens.rx.head",  z3.Implies(z3.Not(rxempty), z3.And(rql != 0, X(u._rxtx.w) == rq[0])))          # software sees the oldest unread byte
    h.ensure("ens.rx.nodrop", z3.Implies(rx_push, ule(rplen, rx_depth + 1)))                                 # a byte is accepted only when there is room
    h.ensure("ens.rx.empty", z3.Implies(rql == 0, rxempty))
    h.ensure("ens.rx.swread", z3.Implies(z3.And(rd_rxtx, z3.Not(rxempty)), h.n(d.bus.dat_r) == zx(rq[0], 32)))
    h.respond("resp.rx.present", z3.BoolVal(True), z3.Not(rxempty), 3, start=rql != 0)                      # a queued byte is shown (rxempty low) within 3 cycles
    # ---- TX FIFO: a write to rxtx pushes exactly one byte unless txfull; bytes leave towards the PHY in order
    wr_rxtx = _sel(h, d, u._rxtx, d.bus.we)
    tx_push = z3.And(b(X(txf.sink.valid)), b(X(txf.sink.ready))); tx_pop = z3.And(b(X(u.source.valid)), b(X(u.source.ready)))
    tql, tq, tplen = ghost_queue(h, "tx", z3.And(wr_rxtx, z3.Not(txfull)), z3.Extract(7, 0, X(d.bus.dat_w)), tx_pop, tx_depth + 1)
    buffered_fifo_hints(h, "tx", txf, tx_depth, tql, tq)
    h.ensure("ens.tx.push", z3.And(tx_push == z3.And(wr_rxtx, z3.Not(txfull)), z3.Implies(tx_push, X(txf.sink.data) == z3.Extract(7, 0, X(d.bus.dat_w)))))
    h.ensure("ens.tx.head", z3.Implies(b(X(u.source.valid)), z3.And(tql != 0, X(u.source.data) == tq[0])))
    h.ensure("ens.tx.nodrop", z3.Implies(z3.And(wr_rxtx, z3.Not(txfull)), ule(tplen, tx_depth + 1)))
    # ---- an episode is never lost: while the FIFO stays non-empty (non-full) either the event is pending or software has acknowledged it
    #      since the episode began (driver protocol: after an acknowledge, drain until rxempty / fill until txfull before waiting again)
    for nm, i, level, plevel in (("rx", 1, z3.Not(rxempty), z3.Not(b(p_rxempty))), ("tx", 0, z3.Not(txfull), z3.Not(b(p_txfull)))):
        ack = h.ghost(f"acked.{nm}", 1); h.ghost_next(ack, z3.If(z3.Not(level), K(0, 1), z3.If(b(clear[i]), K(1, 1), ack)))
        cl = z3.Implies(z3.And(level, plevel), z3.Or(b(pend[i]), b(ack)))
        h.hint(f"episode.{nm}", cl); h.ensure(f"ens.{nm}.episode", cl)
    h.cover("cover.irq.rx", z3.And(b(h.v(ev.irq)), b(pend[1]), z3.Not(b(pend[0]))), depth=10)
    h.cover("cover.rx.pop2", z3.And(rx_pop, rql == 2), depth=12)                 # acknowledge with two bytes queued: one stays
    h.cover("cover.tx.event", z3.And(ev_tx, tql != 0), depth=12)                 # full -> non-full after the PHY took a byte
    h.cover("cover.rx.race", z3.And(ev_rx, b(clear[1])), depth=10)
    h.bmc_depth = 12; h.cosim_cycles = 16
    h.functions = ["litex.soc.cores.uart.UART.__init__ (ev.tx, ev.rx, rx pop on clear)", "litex.soc.cores.uart._get_uart_fifo", "litex.soc.interconnect.stream.SyncFIFO.__init__ (buffered)",
                   "litex.soc.interconnect.csr_eventmanager.EventManager.do_finalize", "litex.soc.interconnect.csr_eventmanager.EventSourceProcess.__init__", "litex.soc.interconnect.csr_bus.CSRBank (flattened)"]
    return h

# ---------------------------------------------------------------------------------------------------
def c_gpio(npins=2, kind="in"):
    class Pads(Record):
        def __init__(self): Record.__init__(self, [("o", npins), ("oe", npins), ("i", npins)])
    holder = {}
    def make():
        if kind == "in":
            holder["pads"] = Signal(npins); return GPIOIn(holder["pads"], with_irq=True)
        holder["pads"] = Pads(); return GPIOTristate(holder["pads"], with_irq=True)
    d = _top(make); g = d.c; ev = g.ev
    pin_in = holder["pads"] if kind == "in" else holder["pads"].i
    h = HwCheck(f"GPIO{'In' if kind == 'in' else 'Tristate'}({npins}).irq", d, [pin_in] + _bus_inputs(d))
    X = h.v
    srcs = [getattr(ev, f"i{n}") for n in range(npins)]
    lvl = X(g._in.status); mode = X(g._mode.storage); edge = X(g._edge.storage)      # lvl: the (synchronised) input level software reads in the `in` register
    p_lvl = h.prev("in", lvl); p_mode = h.prev("mode", mode); p_edge = h.prev("edge", edge)
    events, noevents, set_ok, b2b = [], [], [], []
    for n in range(npins):
        x, xd, m, e, pm, pe = [b(_bit(v_, n)) for v_ in (lvl, p_lvl, mode, edge, p_mode, p_edge)]
        chg = x != xd
        p_chg = b(h.prev(f"chg{n}", bv1(chg)))
        held = z3.And(m == pm, e == pe)                       # pin n's configuration bits unchanged since the previous cycle
        rising  = z3.And(z3.Not(m), z3.Not(e), x, z3.Not(xd))
        falling = z3.And(z3.Not(m), e, z3.Not(x), xd)
        change  = z3.And(m, chg)
        events.append(z3.And(held, z3.Or(rising, falling, change)))
        # "certainly no event on pin n": configuration held and no selected edge; in Change mode: level unchanged
        noevents.append(z3.And(held, z3.Not(z3.Or(rising, falling, change))))
        set_ok.append(z3.Not(z3.And(m, p_chg)))               # see finding below
        b2b.append(z3.And(held, change, p_chg))
        d_ = [s for s in h.ts.state if s.backtrace and s.backtrace[-1][0] == "in_pads_n_d"]
        if len(d_) == npins: h.hint(f"in_d{n}", X(d_[n]) == _bit(p_lvl, n))
    names = [f"i{n}" for n in range(npins)]
    pend, clear = event_clauses(h, d, ev, srcs, events, names, noevents, set_ok)
    for n in range(npins):       # last cycle's trigger in terms of last cycle's pin level / configuration
        g_ = h.ghosts.get(f"prev_trig.i{n}")
        if g_ is not None: h.hint(f"ptrig{n}", g_[0] == z3.If(b(_bit(p_mode, n)), h.ghosts[f"prev_chg{n}"][0], _bit(p_lvl, n) ^ _bit(p_edge, n)))
    # raw level shown in the status register: selected polarity of the pin (Edge mode) / change pulse (Change mode)
    for n in range(npins):
        x, xd, m, e = [_bit(v_, n) for v_ in (lvl, p_lvl, mode, edge)]
        h.ensure(f"ens.i{n}.level", X(srcs[n].trigger) == z3.If(b(m), x ^ xd, x ^ e))
    # Change mode, two changes of a pin in consecutive cycles: the second is not registered (the xor pulse stays high, the rising-edge
    # detector needs a low sample in between); if the acknowledge of the first coincides with it, the change is lost
    for n in range(npins):
        h.finding(f"finding.change-back-to-back.i{n}", z3.Implies(b2b[n], b(h.n(srcs[n].pending))),
                  "GPIO IRQ Change mode: a pin change in the cycle right after another change of the same pin is not registered; when the acknowledge of the first coincides with it, the change is lost (pending and irq stay low)")
    h.cover("cover.rise",  z3.And(events[0], z3.Not(b(_bit(mode, 0))), z3.Not(b(_bit(edge, 0)))), depth=8)
    h.cover("cover.fall",  z3.And(events[0], z3.Not(b(_bit(mode, 0))), b(_bit(edge, 0))), depth=10)
    h.cover("cover.change", z3.And(events[npins - 1], b(_bit(mode, npins - 1)), z3.Not(b(_bit(lvl, npins - 1)))), depth=10)
    h.cover("cover.irq", z3.And(b(h.v(ev.irq)), z3.Not(b(pend[0]))) if npins > 1 else b(h.v(ev.irq)), depth=10)
    h.bmc_depth = 12
    h.functions = ["litex.soc.cores.gpio._GPIOIRQ.add_irq", f"litex.soc.cores.gpio.{'GPIOIn' if kind == 'in' else 'GPIOTristate'}.__init__",
                   "litex.soc.interconnect.csr_eventmanager.EventManager.do_finalize", "litex.soc.interconnect.csr_eventmanager.EventSourceProcess.__init__", "litex.soc.interconnect.csr_bus.CSRBank (flattened)"]
    return h

def cases(tier):
    cs = [Case("Timer(8).ev.zero", c_timer, 8), Case("Timer(3).ev.zero", c_timer, 3),
          Case("UART(tx2,rx2).ev", c_uart, 2, 2, False), Case("UART(tx2,rx2,rx_we).ev", c_uart, 2, 2, True),
          Case("GPIOIn(2).irq", c_gpio, 2, "in"), Case("GPIOIn(1).irq", c_gpio, 1, "in"), Case("GPIOTristate(2).irq", c_gpio, 2, "tri")]
    if tier == "thorough":
        cs += [Case("Timer(32).ev.zero", c_timer, 32), Case("UART(tx4,rx4).ev", c_uart, 4, 4, False), Case("UART(tx2,rx4,rx_we).ev", c_uart, 2, 4, True),
               Case("GPIOIn(4).irq", c_gpio, 4, "in"), Case("GPIOIn(11).irq", c_gpio, 11, "in")]
    return cs

ASSUMPTIONS = ["clients of the event manager (Timer, UART, GPIO) are elaborated behind a real csr_bus.CSRBank at page 0, 32-bit CSR bus; the bus master and the PHY/pin side are unconstrained",
               "history before reset counts as 'trigger low' (the edge detectors' reset value): Timer and UART.tx raise their event once after reset (count is 0 / TX FIFO is non-full)",
               "UART: PHY-less UART (phy=None) with both FIFOs in the sys domain (stream.SyncFIFO buffered), FIFO depths 2 (quick) / 4 (thorough)",
               "UART rx/tx events are per episode (FIFO becomes non-empty / non-full), as the comments in uart.py say: ens.rx.episode/ens.tx.episode state what the driver may rely on",
               "GPIO: the event clauses are stated for cycles in which the pin's own mode/edge bits are the same as in the previous cycle (reconfiguration may itself raise the event)"]
