"""C09 (soc.py:SoCBusHandler.add_adapter): the chain of converters / bridges it builds between an interface and the main bus presents
the bus-side interface with the bus's standard, data width and addressing, and preserves the flat byte address space:
every write issued on the slave side of the chain carries, lane by lane, a byte of the master's current write at the same byte
address, and every read request lies inside the word the master is reading.  (The converters and bridges themselves are under their
own contracts in C07/C09; this contract is about the selection and wiring done by add_adapter, incl. its addressing conversion.)"""
import z3
from .axilib import *
from litex.soc.integration.soc import SoCBusHandler
from litex.soc.interconnect import wishbone, axi, ahb
from vf.core import Case

BW = 36
def _mk_iface(kind, dw, addressing):
    if kind == "wishbone": return wishbone.Interface(data_width=dw, address_width=32, addressing=addressing)
    if kind == "axi-lite": return axi.AXILiteInterface(data_width=dw, address_width=32)
    if kind == "axi":      return axi.AXIInterface(data_width=dw, address_width=32, id_width=1)
    raise ValueError(kind)

def _kind(itf):
    return {wishbone.Interface: "wishbone", axi.AXILiteInterface: "axi-lite", axi.AXIInterface: "axi"}[type(itf)]

def _req_inputs(itf):
    k = _kind(itf)
    if k == "wishbone": return [itf.cyc, itf.stb, itf.we, itf.adr, itf.sel, itf.dat_w, itf.cti, itf.bte]
    return master_side_inputs(itf)
def _rsp_inputs(itf):
    k = _kind(itf)
    if k == "wishbone": return [itf.ack, itf.dat_r, itf.err]
    return slave_side_inputs(itf)

def _views(h, itf):
    """(write-data offered, write-address offered, read-address offered, byte address of write, byte address of read, sel, dat_w, bytes per word)"""
    V = h.v; k = _kind(itf)
    if k == "wishbone":
        nb = len(itf.sel); sh = (nb.bit_length() - 1) if itf.addressing == "word" else 0
        ba = zx(V(itf.adr), BW) << sh
        ba = ba & ~z3.BitVecVal(nb - 1, BW)
        rq = z3.And(b(V(itf.cyc)), b(V(itf.stb)))
        wr = z3.And(rq, b(V(itf.we))); rd = z3.And(rq, z3.Not(b(V(itf.we))))
        return dict(wdat=wr, wadr=wr, radr=rd, wba=ba, rba=ba, sel=V(itf.sel), dat=V(itf.dat_w), nb=nb)
    nb = len(itf.w.strb)
    al = lambda a: zx(V(a), BW) & ~z3.BitVecVal(nb - 1, BW)
    return dict(wdat=b(V(itf.w.valid)), wadr=b(V(itf.aw.valid)), radr=b(V(itf.ar.valid)), wba=al(itf.aw.addr), rba=al(itf.ar.addr), sel=V(itf.w.strb), dat=V(itf.w.data), nb=nb)

def c_add_adapter(i_kind, i_dw, i_addr, bus_kind, bus_dw, direction):
    itf = _mk_iface(i_kind, i_dw, i_addr)
    class Top(LiteXModule):
        def __init__(self):
            self.bus = SoCBusHandler(standard=bus_kind, data_width=bus_dw, address_width=32)
            self.adapted = self.bus.add_adapter("dut", itf, direction)
    try: d = mk(Top)
    except AssertionError as e:
        import traceback
        where = traceback.extract_tb(e.__traceback__)[-1]
        return dict(results=[res("ens.refused", "ensures", OK, 0, "structural", info=f"configuration rejected by an assertion at {where.filename.split('/repo/')[-1]}:{where.lineno} ({where.line}) - nothing is built")],
                    functions=["litex.soc.integration.soc.SoCBusHandler.add_adapter"], assumptions=[])
    ad = d.adapted
    master, slave = (itf, ad) if direction == "m2s" else (ad, itf)
    name = f"add_adapter({i_kind}/{i_dw}/{i_addr}->{bus_kind}/{bus_dw},{direction})"
    results = []
    # ---- shape of the returned interface (structural postconditions)
    want_cls = {"wishbone": wishbone.Interface, "axi-lite": axi.AXILiteInterface, "axi": axi.AXIInterface}[bus_kind]
    shape_ok = isinstance(ad, want_cls) and ad.data_width == bus_dw and ad.address_width == 32 and getattr(ad, "addressing", d.bus.addressing) == d.bus.addressing
    results.append(res("ens.shape", "ensures", OK if shape_ok else VIOLATED, 0, "structural", got=f"{type(ad).__name__}/{ad.data_width}/{getattr(ad, 'addressing', None)}/{ad.address_width}"))
    if "axi" in (_kind(master), _kind(slave)) and (_kind(master) == "axi" or _kind(slave) == "axi"):
        return dict(results=results, functions=["litex.soc.integration.soc.SoCBusHandler.add_adapter"], assumptions=["AXI4 chains: only the shape of the returned interface is checked here; AXI2AXILite/AXI2Wishbone are under contract in C09_axi_bridges.py"])
    h = HwCheck(name, d, _req_inputs(master) + _rsp_inputs(slave))
    # environment: the master holds its request until it is answered; the slave answers only what it was asked
    from . import wblib
    if _kind(master) == "wishbone": wblib.master_holds(h, master, "m")
    else:
        for ch in ("aw", "w", "ar"): src_env(h, getattr(master, ch), "m." + ch)
        nbm = len(master.w.strb)
        if nbm * 8 > bus_dw or (direction == "s2m" and nbm * 8 > i_dw):
            for a_ in (master.aw.addr, master.ar.addr):
                h.assume(z3.Extract(nbm.bit_length() - 2, 0, h.v(a_)) == 0, "AXI-Lite master addresses are aligned to its data width when a down-converter is in the chain (unaligned addresses: finding of AXILiteDownConverter)")
    if _kind(slave) == "wishbone": wblib.slave_legal(h, slave, "s")
    else:
        for ch in ("b", "r"): src_env(h, getattr(slave, ch), "s." + ch)
    m, s = _views(h, master), _views(h, slave)
    NBm, NBs = m["nb"], s["nb"]
    # every byte written on the slave side is a selected byte of the master's current write at the same byte address
    lanes = []
    for j in range(NBs):
        a = s["wba"] + j
        off = a - m["wba"]
        pick_sel = z3.BoolVal(False); pick_dat = z3.BitVecVal(0, 8)
        for i in range(NBm):
            hit = off == z3.BitVecVal(i, BW)
            pick_sel = z3.If(hit, z3.Extract(i, i, m["sel"]) == K(1, 1), pick_sel)
            pick_dat = z3.If(hit, z3.Extract(8 * i + 7, 8 * i, m["dat"]), pick_dat)
        lanes.append(z3.Implies(z3.Extract(j, j, s["sel"]) == K(1, 1), z3.And(z3.ULT(off, z3.BitVecVal(NBm, BW)), pick_sel, z3.Extract(8 * j + 7, 8 * j, s["dat"]) == pick_dat)))
    both = z3.And(s["wdat"], s["wadr"])
    h.ensure("ens.write.bytes", z3.Implies(both, z3.And(m["wdat"], m["wadr"], *lanes)))
    inside_w = z3.ULT(s["wba"] - m["wba"], z3.BitVecVal(NBm, BW)) if NBm >= NBs else z3.ULT(m["wba"] - s["wba"], z3.BitVecVal(NBs, BW))
    h.ensure("ens.write.addr", z3.Implies(s["wadr"], z3.And(m["wadr"], inside_w)))                       # the slave-side word overlaps the word the master writes
    span = max(NBm, NBs)
    inside = z3.ULT(s["rba"] - m["rba"], z3.BitVecVal(NBm, BW)) if NBm >= NBs else z3.ULT(m["rba"] - s["rba"], z3.BitVecVal(NBs, BW))
    h.ensure("ens.read.addr", z3.Implies(s["radr"], z3.And(m["radr"], inside)))
    h.ensure("ens.write.data-needs-master", z3.Implies(s["wdat"], m["wdat"]))
    # invariants from the code of the bridges in the chain: a Wishbone2AXILite FSM is in its WRITE / READ state only while a (held) master request of that direction is pending
    try:
        if _kind(master) == "wishbone":
            hd = h.held["m"]
            for _n, sub in getattr(d.bus, "_submodules", []):
                if isinstance(sub, axi.Wishbone2AXILite):
                    st, enc = sub.fsm.state, sub.fsm.encoding
                    h.hint("w2a.st", ult(h.v(st), len(enc)))
                    mid = L(sub, "wishbone")                        # the Wishbone interface this bridge serves (a converter's slave side or the master itself)
                    midrq = z3.And(b(h.v(mid.cyc)), b(h.v(mid.stb))) if mid is not None else z3.BoolVal(True)
                    midwe = b(h.v(mid.we)) if mid is not None else (hd.we == K(1, 1))
                    h.hint("w2a.W", z3.Implies(eqc(h.v(st), enc["WRITE"]), z3.And(b(hd.pend), hd.we == K(1, 1), midrq, midwe)))
                    h.hint("w2a.R", z3.Implies(eqc(h.v(st), enc["READ"]), z3.And(b(hd.pend), hd.we == K(0, 1), midrq, z3.Not(midwe))))
                    if "ERROR" in enc: h.hint("w2a.E", z3.Implies(eqc(h.v(st), enc["ERROR"]), z3.And(b(hd.pend), midrq)))
    except (AttributeError, KeyError, TypeError): pass
    h.use_auto = True
    h.cover("cover.write", both, depth=6); h.cover("cover.read", s["radr"], depth=6)
    h.bmc_depth = 8
    h.functions = ["litex.soc.integration.soc.SoCBusHandler.add_adapter", "(converters / bridges it instantiates: own contracts in C07 / C09)"]
    h.pre_results = results
    return h

GRID = [("wishbone", 32, "word", "wishbone", 32, "m2s"), ("wishbone", 32, "byte", "wishbone", 32, "m2s"), ("wishbone", 32, "byte", "wishbone", 32, "s2m"),
        ("wishbone", 64, "word", "wishbone", 32, "m2s"), ("wishbone", 32, "word", "wishbone", 64, "m2s"), ("wishbone", 64, "word", "wishbone", 32, "s2m"), ("wishbone", 32, "word", "wishbone", 64, "s2m"),
        ("wishbone", 64, "byte", "wishbone", 32, "m2s"), ("wishbone", 32, "byte", "wishbone", 64, "s2m"),
        ("axi-lite", 32, "byte", "wishbone", 32, "m2s"), ("axi-lite", 32, "byte", "wishbone", 32, "s2m"), ("wishbone", 32, "word", "axi-lite", 32, "m2s"), ("wishbone", 32, "word", "axi-lite", 32, "s2m"),
        ("wishbone", 32, "byte", "axi-lite", 32, "m2s"), ("axi-lite", 64, "byte", "wishbone", 32, "m2s"), ("axi-lite", 32, "byte", "axi-lite", 64, "m2s"),
        ("wishbone", 32, "word", "axi-lite", 64, "m2s"), ("wishbone", 32, "word", "axi-lite", 64, "s2m"), ("wishbone", 64, "word", "axi-lite", 32, "s2m"),
        ("axi", 32, "byte", "wishbone", 32, "m2s"), ("axi", 32, "byte", "axi-lite", 32, "m2s"), ("axi-lite", 32, "byte", "axi", 32, "m2s"), ("wishbone", 32, "word", "axi", 32, "m2s")]

def cases(tier):
    return [Case(f"add_adapter({c[0]}/{c[1]}/{c[2]}->{c[3]}/{c[4]},{c[5]})", c_add_adapter, *c, timeout=900) for c in GRID]

ASSUMPTIONS = ["add_adapter: wishbone/64 master onto a 32-bit AXI-Lite bus (DownConverter + addressing conversion + Wishbone2AXILite, m2s) is not in the grid: its joint invariant (bridge FSM state vs. the converter's skipped sub-words) was not established; the s2m twin and the 32->64 pair are",
               "add_adapter: configurations from a grid (standards x widths x addressing x direction); reads are checked for the address window only (data return is the converters' own contract)"]
