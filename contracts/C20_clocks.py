"""C20: computed PLL/clock configurations meet the request and the device limits.
E3 (symx/loopcut variant): the real compute_config of each helper runs on symbolic REAL input/output frequencies and margins;
the search loops are cut by a mechanical AST rewrite of the current source (loop variable havocked inside its real range);
soundness needs only the facts of the returning iteration.  Floats are treated as reals (stated assumption)."""
import sys, time, logging, itertools, math, z3
from vf import elab
from vf import symx, loopcut
from vf.symx import explore as sx_explore, SymBool, SymInt, PathEnd
from vf.loopcut import SymReal, VC, rewrite, _r
from vf.core import Case, PROVED, VIOLATED, NOINPUT, UNKNOWN, BOUNDED_OK, OK, VACUOUS
from vf.hw import res
from migen import Signal
from litex.soc.cores.clock import xilinx_s7, xilinx_s6, xilinx_us, xilinx_usp, lattice_ice40, lattice_ecp5
from litex.soc.cores.clock.xilinx_common import XilinxClocking

def _in_range(ctx, vc, name, lo, hi, step=1):
    """range contract of range(lo, hi) / clkdiv_range(lo, hi, step): an arbitrary member lo + k*step, lo <= x < hi"""
    if float(step) == 1 and float(lo) == int(lo):
        x = vc.fresh("int", name); ctx.assume(x >= lo); ctx.assume(x < hi); return x
    k = vc.fresh("int", name + "_k"); ctx.assume(k >= 0)
    x = SymReal(z3.RealVal(lo) + z3.ToReal(k.t) * z3.RealVal(step)); ctx.assume(x < hi); return x
def _vc_obl(vc): return [(n, z3.BoolVal(r == z3.unsat)) for n, r in vc.obl]

def _collect(prefix, paths, results, t0, extra=None):
    out = []
    seen = {}
    for n, r, m in results:
        k = seen.get(n, 0); seen[n] = k + 1
        st = PROVED if r == z3.unsat else (UNKNOWN if r == z3.unknown else NOINPUT)
        info = {}
        if r == z3.sat and m is not None: info["model"] = {str(d_): str(m[d_]) for d_ in m.decls()}
        out.append(res(f"{prefix}.{n}#{k}", "pysym", st, 0, "z3-5.1.0(api)", **info))
    out.append(res(f"{prefix}.all-paths-explored", "cover", OK if paths > 1 else VACUOUS, time.time() - t0, "symx", paths=paths))
    return out

def c_xilinx(clsname, speedgrade, nout):
    cls = {"S7PLL": xilinx_s7.S7PLL, "S7MMCM": xilinx_s7.S7MMCM, "S6PLL": xilinx_s6.S6PLL, "USPLL": xilinx_us.USPLL, "USMMCM": xilinx_us.USMMCM,
           "USPPLL": xilinx_usp.USPPLL, "USPMMCM": xilinx_usp.USPMMCM}[clsname]
    t0 = time.time()
    if cls.compute_config is not XilinxClocking.compute_config:
        return dict(results=[res(f"{clsname}.compute_config", "pysym", UNKNOWN, 0, "", info="class overrides compute_config: contract not applicable")], functions=[])
    ok_shape, why = _frame_check(XilinxClocking.compute_config)
    if not ok_shape:
        return dict(results=[res(f"{clsname}.compute_config.frame", "pysym", UNKNOWN, 0, "", info=why)], functions=[])
    def run(ctx):
        pll = cls(speedgrade=speedgrade)
        vc = VC({
            0: dict(elem=lambda vc, it, L: _in_range(ctx, vc, "D", *L["self"].divclk_divide_range)),
            1: dict(elem=lambda vc, it, L: _in_range(ctx, vc, "M", *L["self"].clkfbout_mult_frange)),
            # innermost divider search: iterations that do not leave the loop assign only `clk_freq` (frame, checked on the AST by
            # _frame_check), so nothing needs to be havocked: on exhaustion every live variable has its entry value
            4: dict(elem=lambda vc, it, L: _in_range(ctx, vc, "d", *L["d_range"])),
        })
        fn, src = rewrite(XilinxClocking.compute_config, vc.specs, vc)
        fin = SymReal(z3.Real("fin")); ctx.assume(fin > 0)
        pll.clkin_freq = fin
        reqs = []
        for n in range(nout):
            f = SymReal(z3.Real(f"f{n}")); m = SymReal(z3.Real(f"m{n}")); ctx.assume(f > 0); ctx.assume(m >= 0)
            pll.clkouts[n] = (Signal(), f, 0, m); reqs.append((f, m))
        pll.nclkouts = nout
        try:
            cfg = fn(pll)
        except ValueError:
            return _vc_obl(vc)
        obl = _vc_obl(vc)
        D, M = cfg["divclk_divide"], cfg["clkfbout_mult"]
        vmin, vmax = pll.vco_freq_range
        vco = _r(fin) * _r(M) / _r(D)
        obl.append(("ens.ranges.vco", z3.And(vco >= vmin * (1 + pll.vco_margin), vco <= vmax * (1 - pll.vco_margin))))
        obl.append(("ens.ranges.D", z3.And(_r(D) >= pll.divclk_divide_range[0], _r(D) < pll.divclk_divide_range[1])))
        obl.append(("ens.ranges.M", z3.And(_r(M) >= pll.clkfbout_mult_frange[0], _r(M) < pll.clkfbout_mult_frange[1])))
        for n, (f, m) in enumerate(reqs):
            d = cfg[f"clkout{n}_divide"]
            fo = _r(fin) * _r(M) / (_r(D) * _r(d))              # recomputed from the returned multipliers/dividers, not from clkoutN_freq
            obl.append((f"ens.meets{n}", z3.And(fo - f.t <= f.t * m.t, f.t - fo <= f.t * m.t)))
            lo, hi = pll.clkout_divide_range[0], pll.clkout_divide_range[1]
            alt = getattr(pll, f"clkout{n}_divide_range", None)
            step = pll.clkout_divide_range[2] if len(pll.clkout_divide_range) > 2 else 1
            rng = z3.And(_r(d) >= lo, _r(d) < hi, z3.IsInt((_r(d) - lo) / step))                     # a member of the declared range (integer steps)
            if alt is not None:
                astep = alt[2] if len(alt) > 2 else 1
                rng = z3.Or(rng, z3.And(_r(d) >= alt[0], _r(d) < alt[1], z3.IsInt((_r(d) - alt[0]) / astep)))
            obl.append((f"ens.ranges.d{n}", rng))
        return obl
    paths, results = sx_explore(run)
    return dict(results=_collect(f"{clsname}(sg={speedgrade},nout={nout}).compute_config", paths, results, t0),
                functions=["litex.soc.cores.clock.xilinx_common.XilinxClocking.compute_config", f"litex.soc.cores.clock.{cls.__module__.split('.')[-1]}.{clsname}.__init__ (range tables)", "litex.soc.cores.clock.common.clkdiv_range (replaced by its range contract)"],
                samples=[dict(function=f"{clsname}.compute_config", paths=paths, inputs="symbolic real clkin_freq, output frequencies and margins")])

def _frame_check(fn):
    """frame condition of the cut divider loop, checked mechanically on the current source: the body of the innermost
    `for d in ...` loop is [clk_freq = ...; if <cond>: <assignments>; break (; if valid: break)] - a non-leaving iteration assigns clk_freq only"""
    import ast, inspect, textwrap
    tree = ast.parse(textwrap.dedent(inspect.getsource(fn)))
    loops = [n for n in ast.walk(tree) if isinstance(n, ast.For) and isinstance(n.target, ast.Name) and n.target.id == "d"]
    if len(loops) != 1: return False, f"expected one 'for d' loop, found {len(loops)}"
    body = loops[0].body
    if not (isinstance(body[0], ast.Assign) and isinstance(body[0].targets[0], ast.Name) and body[0].targets[0].id == "clk_freq"): return False, "first statement of the divider loop is not 'clk_freq = ...'"
    for st in body[1:]:
        if not isinstance(st, ast.If): return False, f"unexpected statement {type(st).__name__} in the divider loop"
        if not isinstance(st.body[-1], ast.Break) or st.orelse: return False, "an if-branch of the divider loop does not end with break"
    return True, ""

def c_ice40(nout=1):
    t0 = time.time()
    def run(ctx):
        pll = lattice_ice40.iCE40PLL()
        vc = VC({
            0: dict(elem=lambda vc, it, L: _in_range(ctx, vc, "divr", *L["self"].divr_range)),
            1: dict(elem=lambda vc, it, L: _in_range(ctx, vc, "divf", *L["self"].divf_range)),
        })
        fn, src = rewrite(lattice_ice40.iCE40PLL.compute_config, vc.specs, vc)
        fin = SymReal(z3.Real("fin")); ctx.assume(fin >= pll.clki_freq_range[0]); ctx.assume(fin <= 133e6)
        pll.clkin_freq = fin
        f = SymReal(z3.Real("f0")); m = SymReal(z3.Real("m0")); ctx.assume(f > 0); ctx.assume(m >= 0)
        pll.clkouts[0] = (Signal(), f, 0, m); pll.nclkouts = 1
        try:
            cfg = fn(pll)
        except ValueError:
            return _vc_obl(vc)
        obl = _vc_obl(vc)
        divr, divf, divq = cfg["divr"], cfg["divf"], cfg["divq"]
        vco = _r(fin) / (_r(divr) + 1) * (_r(divf) + 1)
        vmin, vmax = pll.vco_freq_range
        obl.append(("ens.ranges.vco", z3.And(vco >= vmin, vco <= vmax)))
        obl.append(("ens.ranges.divr", z3.And(_r(divr) >= pll.divr_range[0], _r(divr) < pll.divr_range[1])))
        obl.append(("ens.ranges.divf", z3.And(_r(divf) >= pll.divf_range[0], _r(divf) < pll.divf_range[1])))
        obl.append(("ens.ranges.divq", z3.BoolVal(isinstance(divq, int) and pll.divq_range[0] <= divq < pll.divq_range[1])))
        fo = vco / (2 ** divq)
        obl.append(("ens.meets0", z3.And(fo - f.t <= f.t * m.t, f.t - fo <= f.t * m.t)))
        # phase-detector frequency inside the device range (10-133 MHz for the iCE40 PLL, datasheet / the filter-range table of do_finalize)
        pfd = _r(fin) / (_r(divr) + 1)
        obl.append(("finding.ranges.pfd>=10MHz", pfd >= 10e6))
        obl.append(("ens.ranges.pfd<=133MHz", pfd <= 133e6))
        return obl
    paths, results = sx_explore(run)
    out = _collect("iCE40PLL.compute_config", paths, results, t0)
    for r_ in out:
        if "finding." in r_["name"]:
            r_["kind"] = "finding-witness"; r_["what"] = "iCE40PLL.compute_config does not check the phase-detector frequency: it returns settings with clkin/(divr+1) below 10 MHz"
    return dict(results=out, functions=["litex.soc.cores.clock.lattice_ice40.iCE40PLL.compute_config"],
                samples=[dict(function="iCE40PLL.compute_config", paths=paths)])

def c_ecp5(nout):
    t0 = time.time()
    def run(ctx):
        pll = lattice_ecp5.ECP5PLL(); pll.logger.disabled = True
        def havoc_fb(L):
            # entries of `config` written by earlier (rejected) candidates are unknown at the head of an iteration
            cfg = L["config"]
            if "clkfb" in cfg:
                choice = None
                for k in range(nout):
                    if bool(SymBool(z3.Bool(f"stale_fb{k}!{vcx._n()}"))): choice = k; break
                cfg["clkfb"] = choice
        def el(name, rng_attr):
            def f(vc, it, L):
                if name == "clkfb_div": havoc_fb(L)          # head of every candidate iteration (subsumes the outer loop heads)
                return _in_range(ctx, vc, name, *getattr(L["self"], rng_attr))
            return f
        vcx = VC({0: dict(elem=el("clki_div", "clki_div_range")), 1: dict(elem=el("clkofb_div", "clko_div_range")), 2: dict(elem=el("clkfb_div", "clkfb_div_range")),
                  4: dict(elem=lambda vc, it, L: _in_range(ctx, vc, "d", *L["self"].clko_div_range))})
        def sym_int(x):
            if isinstance(x, SymInt):
                k = vcx.fresh("int", "trunc"); ctx.assume(_rb(_r(k) <= _r(x))); ctx.assume(_rb(_r(x) < _r(k) + 1)); return k
            return int(x)
        fn, src = rewrite(lattice_ecp5.ECP5PLL.compute_config, vcx.specs, vcx, extra_globals={"int": sym_int})
        fin = SymReal(z3.Real("fin")); ctx.assume(fin >= pll.clki_freq_range[0]); ctx.assume(fin <= pll.clki_freq_range[1])
        pll.clkin_freq = fin
        reqs = []
        for n in range(nout):
            f = SymReal(z3.Real(f"f{n}")); m = SymReal(z3.Real(f"m{n}")); ctx.assume(f > 0); ctx.assume(m >= 0); ctx.assume(m < 1)
            pll.clkouts[n] = (Signal(), f, 0, m, True); reqs.append((f, m))
        pll.nclkouts = nout
        try:
            cfg = fn(pll)
        except ValueError:
            return _vc_obl(vcx)
        obl = _vc_obl(vcx)
        fb = cfg["clkfb"]
        if not isinstance(fb, int) or f"clko{fb}_div" not in cfg:
            obl.append(("ens.feedback-output-defined", z3.BoolVal(False))); return obl
        ki, kf, kofb = cfg["clki_div"], cfg["clkfb_div"], cfg[f"clko{fb}_div"]
        pfd = _r(fin) / _r(ki)
        vco = pfd * _r(kf) * _r(kofb)                    # as the hardware computes it: feedback through output `clkfb`
        obl.append(("ens.ranges.pfd", z3.And(pfd >= pll.pfd_freq_range[0], pfd <= pll.pfd_freq_range[1])))
        obl.append(("ens.ranges.vco", z3.And(vco >= pll.vco_freq_range[0], vco <= pll.vco_freq_range[1])))
        obl.append(("ens.ranges.clki_div", z3.And(_r(ki) >= pll.clki_div_range[0], _r(ki) < pll.clki_div_range[1])))
        obl.append(("ens.ranges.clkfb_div", z3.And(_r(kf) >= pll.clkfb_div_range[0], _r(kf) < pll.clkfb_div_range[1])))
        obl.append(("ens.ranges.clkofb_div", z3.And(_r(kofb) >= pll.clko_div_range[0], _r(kofb) < pll.clko_div_range[1])))
        for n, (f, m) in enumerate(reqs):
            dn = cfg[f"clko{n}_div"]; fo = vco / _r(dn)
            obl.append((f"ens.meets{n}", z3.And(fo - f.t <= f.t * m.t, f.t - fo <= f.t * m.t)))
            obl.append((f"ens.ranges.d{n}", z3.And(_r(dn) >= pll.clko_div_range[0], _r(dn) < pll.clko_div_range[1])))
        return obl
    paths, results = sx_explore(run)
    return dict(results=_collect(f"ECP5PLL(nout={nout}).compute_config", paths, results, t0), functions=["litex.soc.cores.clock.lattice_ecp5.ECP5PLL.compute_config"],
                samples=[dict(function="ECP5PLL.compute_config", paths=paths, note="stale config entries of rejected candidates are havocked at every cut iteration")])

def _rb(t): return SymBool(t)

def c_ecp5_bounded():
    """ECP5PLL: instance parameters recomputed as the hardware does (feedback through the selected output), enumerated requests"""
    from migen import ClockDomain
    freqs = [400e6, 200e6, 160e6, 133.333e6, 100e6, 50e6, 25e6, 10e6]
    evals = 0; bad = []
    l_to_n = {"P": 0, "S": 1, "S2": 2, "S3": 3}
    for fin in (100e6, 25e6, 48e6):
        reqsets = [[f] for f in freqs] + [[a, b_] for a in freqs for b_ in freqs if a != b_]
        for outs in reqsets:
            evals += 1
            pll = lattice_ecp5.ECP5PLL(); pll.logger.disabled = True
            pll.register_clkin(Signal(), fin)
            for k, fo in enumerate(outs): pll.create_clkout(ClockDomain(f"o{k}"), fo, margin=1e-2, with_reset=False)
            try: pll.do_finalize()
            except ValueError: continue
            except Exception as e: bad.append((fin, outs, f"{type(e).__name__}: {e}")); continue
            p = pll.params
            fb = l_to_n[p["p_FEEDBK_PATH"].replace("INT_O", "")]
            need = [f"p_CLKO{ {0: 'P', 1: 'S', 2: 'S2', 3: 'S3'}[k_] }_DIV" for k_ in set(range(len(outs))) | {fb}]
            if any(k_ not in p for k_ in need):          # a divider the configuration relies on is not on the emitted instance (primitive default would apply)
                bad.append((fin, outs, dict(missing_instance_parameters=[k_ for k_ in need if k_ not in p], fb=fb))); continue
            names = {0: "P", 1: "S", 2: "S2", 3: "S3"}
            vco = fin / p["p_CLKI_DIV"] * p["p_CLKFB_DIV"] * p[f"p_CLKO{names[fb]}_DIV"]
            pfd = fin / p["p_CLKI_DIV"]
            ok = pll.vco_freq_range[0] * (1 - 1e-9) <= vco <= pll.vco_freq_range[1] * (1 + 1e-9) and pll.pfd_freq_range[0] <= pfd <= pll.pfd_freq_range[1]
            for k, fo in enumerate(outs):
                got = vco / p[f"p_CLKO{names[k]}_DIV"]
                ok = ok and abs(got - fo) <= fo * 1e-2 * (1 + 1e-9) and 1 <= p[f"p_CLKO{names[k]}_DIV"] <= 128
            if not ok: bad.append((fin, outs, dict(vco=vco, fb=fb)))
    return dict(results=[res("ens.instance+meets[ECP5PLL, 3 inputs x 64 request sets]", "bounded", BOUNDED_OK if not bad else VIOLATED, 0, "executed; frequencies recomputed from the emitted instance parameters", evaluations=evals, info=str(bad[:2]))],
                functions=["litex.soc.cores.clock.lattice_ecp5.ECP5PLL.compute_config/do_finalize (bounded)"], samples=[dict(bounded="ECP5PLL", evaluations=evals)])

def c_ice40_finalize():
    """do_finalize on a request that compute_config accepts: the instance is emitted with the computed parameters (no crash)"""
    out = []
    for fin, fout in ((12e6, 48e6), (133e6, 66.5e6), (100e6, 25e6), (16e6, 16e6)):
        pll = lattice_ice40.iCE40PLL(); pll.logger.disabled = True
        pll.register_clkin(Signal(), fin)
        from migen import ClockDomain
        cd = ClockDomain("o"); pll.create_clkout(cd, fout, margin=1e-2, with_reset=False)
        name = f"iCE40PLL.do_finalize[clkin={fin/1e6:g}MHz,out={fout/1e6:g}MHz]"
        try:
            cfg = pll.compute_config()
        except ValueError:
            out.append(res("ens.instance." + name, "bounded", BOUNDED_OK, 0, "executed", info="refused")); continue
        try:
            pll.do_finalize()
            ok = pll.params["p_DIVR"] == cfg["divr"] and pll.params["p_DIVF"] == cfg["divf"] and pll.params["p_DIVQ"] == cfg["divq"]
            out.append(res("ens.instance." + name, "bounded", BOUNDED_OK if ok else VIOLATED, 0, "executed"))
        except Exception as e:
            kind = "finding-witness" if fin >= 133e6 else "bounded"
            out.append(res(("finding.instance." if fin >= 133e6 else "ens.instance.") + name, kind, VIOLATED, 0, "executed", info=f"{type(e).__name__}: {e}",
                           what="iCE40PLL.do_finalize raises UnboundLocalError (filter_range) when the phase-detector frequency is >= 133 MHz (clkin 133 MHz, divr 0), a request compute_config accepts"))
    # native witness of the phase-detector finding (found by brute force from the symbolic counter-model's shape)
    pll = lattice_ice40.iCE40PLL(); pll.logger.disabled = True
    from migen import ClockDomain
    pll.register_clkin(Signal(), 12e6); pll.create_clkout(ClockDomain("w"), 66.75e6, margin=1e-4, with_reset=False)
    try:
        cfg = pll.compute_config(); pfd = 12e6 / (cfg["divr"] + 1)
        out.append(res("finding.ranges.pfd.native[clkin=12MHz,out=66.75MHz,margin=1e-4]", "finding-witness", VIOLATED if pfd < 10e6 else PROVED, 0, "executed", info=f"divr={cfg['divr']} pfd={pfd/1e6:g}MHz",
                       what="iCE40PLL.compute_config returns divr=1 for clkin 12 MHz / out 66.75 MHz: phase-detector frequency 6 MHz, below the 10 MHz device minimum"))
    except ValueError:
        out.append(res("finding.ranges.pfd.native[clkin=12MHz,out=66.75MHz,margin=1e-4]", "finding-witness", PROVED, 0, "executed", info="refused"))
    return dict(results=out, functions=["litex.soc.cores.clock.lattice_ice40.iCE40PLL.do_finalize (bounded)"], samples=[dict(bounded="iCE40PLL.do_finalize", requests=4)])

def c_xilinx_instance():
    """instance parameters equal the returned configuration; completeness against an independent exhaustive search (bounded: enumerated requests)"""
    from migen import ClockDomain
    out = []; evals = 0; bad = []; badc = []
    reqs = [(100e6, [(100e6, 0), (200e6, 90)]), (125e6, [(25e6, 0)]), (50e6, [(333e6, 0), (83.25e6, 0)]), (200e6, [(12.288e6, 0)]), (19e6, [(800e6, 0)]), (100e6, [(1e6, 0)])]
    for clsname, cls in (("S7PLL", xilinx_s7.S7PLL), ("S7MMCM", xilinx_s7.S7MMCM), ("USMMCM", xilinx_us.USMMCM)):
        for fin, outs in reqs:
            evals += 1
            pll = cls(speedgrade=-1); pll.logger.disabled = True
            pll.register_clkin(Signal(), fin)
            for k, (fo, ph) in enumerate(outs): pll.create_clkout(ClockDomain(f"o{k}"), fo, phase=ph, margin=1e-2, with_reset=False, buf=None)
            try: cfg = pll.compute_config()
            except ValueError: cfg = None
            # independent exhaustive existence search over the declared ranges
            exists = False
            for D in range(*pll.divclk_divide_range):
                for M in range(*pll.clkfbout_mult_frange):
                    vco = fin * M / D
                    if not (pll.vco_freq_range[0] * (1 + pll.vco_margin) <= vco <= pll.vco_freq_range[1] * (1 - pll.vco_margin)): continue
                    okall = True
                    for n, (fo, ph) in enumerate(outs):
                        rngs = [pll.clkout_divide_range] + ([getattr(pll, f"clkout{n}_divide_range")] if getattr(pll, f"clkout{n}_divide_range", None) else [])
                        found = False
                        for rg in rngs:
                            steps = int(round((rg[1] - rg[0]) / (rg[2] if len(rg) > 2 else 1)))
                            for i in range(steps):
                                d = rg[0] + i * (rg[2] if len(rg) > 2 else 1)
                                if d < rg[1] and abs(vco / d - fo) <= fo * 1e-2: found = True; break
                            if found: break
                        if not found: okall = False; break
                    if okall: exists = True; break
                if exists: break
            if (cfg is None) == exists: badc.append((clsname, fin, outs, "refused although a setting exists" if exists else "returned although none exists"))
            if cfg is not None:
                try:
                    pll.do_finalize()
                    p = pll.params
                    mult_key = "p_CLKFBOUT_MULT" if "p_CLKFBOUT_MULT" in p else "p_CLKFBOUT_MULT_F"
                    ok = p[mult_key] == cfg["clkfbout_mult"] and p["p_DIVCLK_DIVIDE"] == cfg["divclk_divide"]
                    for n, (fo, ph) in enumerate(outs):
                        dk = [k for k in p if k.startswith(f"p_CLKOUT{n}_DIVIDE")]
                        ok = ok and p[dk[0]] == cfg[f"clkout{n}_divide"] and p[f"p_CLKOUT{n}_PHASE"] == cfg[f"clkout{n}_phase"] == ph
                    if not ok: bad.append((clsname, fin, outs))
                except Exception as e: bad.append((clsname, fin, outs, f"{type(e).__name__}: {e}"))
    out.append(res("ens.instance[Xilinx, 3 classes x 6 requests]", "bounded", BOUNDED_OK if not bad else VIOLATED, 0, "executed", evaluations=evals, info=str(bad[:2])))
    out.append(res("ens.complete[Xilinx, 3 classes x 6 requests]", "bounded", BOUNDED_OK if not badc else VIOLATED, 0, "independent exhaustive search", evaluations=evals, info=str(badc[:2])))
    return dict(results=out, functions=["litex.soc.cores.clock.xilinx_s7.S7PLL.do_finalize (bounded)", "litex.soc.cores.clock.xilinx_s7.S7MMCM.do_finalize (bounded)", "litex.soc.cores.clock.xilinx_usp.USPMMCM.do_finalize (bounded)"],
                samples=[dict(bounded="instance parameters and completeness", evaluations=evals)])

def cases(tier):
    cs = [Case("S7PLL(-1,1)", c_xilinx, "S7PLL", -1, 1), Case("S7PLL(-1,2)", c_xilinx, "S7PLL", -1, 2), Case("S7MMCM(-2,2)", c_xilinx, "S7MMCM", -2, 2),
          Case("S6PLL(-1,2)", c_xilinx, "S6PLL", -1, 2), Case("USPLL(-1,2)", c_xilinx, "USPLL", -1, 2), Case("USMMCM(-2,2)", c_xilinx, "USMMCM", -2, 2),
          Case("USPPLL(-1,2)", c_xilinx, "USPPLL", -1, 2),
          Case("iCE40PLL", c_ice40), Case("ECP5PLL(bounded)", c_ecp5_bounded), Case("iCE40PLL.do_finalize", c_ice40_finalize), Case("Xilinx.instance+completeness", c_xilinx_instance)]
    if tier == "thorough":
        cs += [Case("ECP5PLL(1)", c_ecp5, 1, timeout=3600), Case("S7PLL(-3,4)", c_xilinx, "S7PLL", -3, 4, timeout=1800), Case("S7MMCM(-1,3)", c_xilinx, "S7MMCM", -1, 3, timeout=1800)]
    return cs

ASSUMPTIONS = ["floats are treated as real arithmetic (rounding at margin boundaries is not modelled)",
               "search loops are cut: the loop variable is havocked inside its declared range (range()/clkdiv_range contract), flags carry the invariant 'not yet valid at loop head'; soundness needs only the returning iteration",
               "completeness ('refused only if no setting exists') and instance parameters are bounded stand-ins on enumerated requests (labelled, not counted as proved)",
               "ECP5PLL: symbolic proof (1 output) in the thorough tier only (~10 min of nonlinear real arithmetic); quick tier: bounded instance check; USPMMCM, NXPLL, Intel, Gowin, Efinix (bounded), CologneChip helpers are in C20_clocks_ext.py"]
