"""C19 (extension): the receiving / slave side of the serial peripherals and the remaining sequencers.
RS232PHYRX  - per-bit contract on an arbitrary line (start detection, mid-bit sampling instants as exact accumulator arithmetic, LSB-first assembly,
              stop-bit check, one-cycle valid, return to idle, termination) and link-level contracts against a ghost *ideal transmitter* (symbolic byte,
              symbolic idle gaps / back-to-back frames): (a) symbolic 32-bit tuning word and symbolic sub-cycle phase at the programmed rate,
              (b) concrete bit periods with a symbolic integer transmitter period (rate mismatch up to +-3.1%): every frame is delivered exactly once
              with the transmitted byte and the receiver is idle again before the stop bit ends.
SPISlave    - chip-select framing, bit count, MSB-first capture on the rising edge, MISO shifting on the falling edge, done/irq.
I2CMaster   - (litex/soc/cores/i2c.py, at the pads) only legal START/STOP/bit sequences on scl/sda, every command returns to idle; two findings.
timeline    - events exactly at the listed offsets after the accepted trigger, returns to idle."""
import z3
from vf.elab import L, locals_of, mk
from vf.hw import *
from migen import *
from litex.gen import LiteXModule
from litex.soc.cores.uart import RS232PHYRX
from vf.core import Case

# ------------------------------------------------------------------------------------------------ RS232PHYRX
class _Pads:
    def __init__(self): self.tx = Signal(); self.rx = Signal()

def _rx_top(extra=()):
    pads = _Pads()
    class Top(LiteXModule):
        def __init__(self):
            self.tw = Signal(32)
            self.rx = RS232PHYRX(pads, self.tw)
            # harness-only free signals (stimulus of the ghost transmitter); kept alive by a dummy comb statement
            self.aux = [Signal(w, name=n) for n, w in extra]
            if self.aux:
                self.dummy = Signal()
                self.comb += self.dummy.eq(Cat(*self.aux) == 0)
    d = mk(Top)
    return d, pads

def _rx_regs(h, rx):
    """the registers of the receiver: the two synchroniser stages created by the MultiReg lowering, and the locals"""
    sync = sorted([s for s in h.ts.state if s not in h.ts.orig_signals and s.nbits == 1], key=lambda s: s.duid)
    if len(sync) != 2: raise SidecarMismatch(f"RS232PHYRX: expected the two synchroniser flops of MultiReg(pads.rx, rx), found {len(sync)}")
    phase = [s for s in h.ts.state if s.nbits == 32][0]
    regs = dict(rx=L(rx, "rx"), count=L(rx, "count"), data=L(rx, "data"))
    missing = [k for k, v in regs.items() if v is None]
    if missing: raise SidecarMismatch(f"RS232PHYRX: internal register(s) {missing} not found")
    return sync[0], sync[1], regs["rx"], L(rx, "rx_d"), regs["count"], regs["data"], phase, rx.clk_phase_accum.tick      # rx_d (delayed line sample) may be absent: only hints use it

def c_uart_rx():
    """arbitrary line, arbitrary (even changing) tuning word: what the receiver does with the line, bit by bit"""
    d, pads = _rx_top(); rx = d.rx; src = rx.source
    h = HwCheck("RS232PHYRX", d, [d.tw, pads.rx])
    V = h.v
    r0, r1, rxs, rx_d, count, data, phase, tick = _rx_regs(h, rx)
    st, enc = rx.fsm.state, rx.fsm.encoding
    idle = eqc(V(st), enc["IDLE"]); run = eqc(V(st), enc["RUN"])
    n_idle = eqc(h.n(st), enc["IDLE"]); n_run = eqc(h.n(st), enc["RUN"])
    tk = b(V(tick)); tw = V(d.tw)
    # the synchronised line: rx is the pad two cycles ago, rx_d three cycles ago
    p1 = h.prev("line1", V(pads.rx)); p2 = h.prev("line2", p1); p3 = h.prev("line3", p2)
    h.hint("sync0", V(r0) == p1); h.hint("sync1", V(r1) == p2)
    if rx_d is not None: h.hint("sync2", V(rx_d) == p3)
    h.ensure("ens.sync", V(rxs) == p2)                       # the line as the receiver sees it: the pad two cycles ago (p3 = three cycles ago is a ghost)
    # ghost: number of samples taken in this frame, the byte assembled LSB first from samples 1..8, elapsed extended phase
    ns = h.ghost("nsamples", 4); gb = h.ghost("gbyte", 8); acc = h.ghost("acc", 40, init=1 << 31)
    sample = z3.And(run, tk)
    h.ghost_next(ns, z3.If(idle, K(0, 4), z3.If(sample, ns + 1, ns)))
    nb = gb
    for k in range(1, 9):       # sample k (k = 1..8) is data bit k-1
        bit_k = z3.Concat(*([z3.Extract(7, k, gb)] if k < 8 else []) + [V(rxs)] + ([z3.Extract(k - 2, 0, gb)] if k > 1 else []))
        nb = z3.If(z3.And(sample, ns == K(k, 4)), bit_k, nb)
    h.ghost_next(gb, nb)
    # acc = 2^31 + (sum of the tuning word over the cycles spent in RUN): half a bit period ahead at the start of the frame
    h.ghost_next(acc, z3.If(run, acc + zx(tw, 40), K(1 << 31, 40)))
    h.hint("st", ult(V(st), 2))
    h.hint("ns<=9", z3.Implies(run, ule(ns, 9)))
    h.hint("cnt", z3.Implies(run, V(count) == ns))
    h.hint("acc", z3.Implies(run, z3.And(z3.Extract(31, 0, acc) == V(phase), z3.Extract(39, 32, acc) == zx(ns, 8) + zx(V(tick), 8))))
    for n in range(2, 10):
        h.hint(f"asm{n}", z3.Implies(z3.And(run, ns == K(n, 4)), z3.Extract(7, 9 - n, V(data)) == z3.Extract(n - 2, 0, gb)))
    # --- start-bit detection: leaves idle exactly on a falling edge of the synchronised line
    h.ensure("ens.start", z3.Implies(idle, n_run == z3.And(p2 == K(0, 1), p3 == K(1, 1))))
    # --- sampling instants: the number of samples taken so far (including the one of this cycle) is floor((2^31 + elapsed phase) / 2^32):
    #     the k-th sample is taken (k + 1/2) bit periods after the detection, rounded up to the next cycle (+1 for the tick register)
    h.ensure("ens.sample-instant", z3.Implies(run, z3.Extract(39, 32, acc) == zx(ns, 8) + zx(V(tick), 8)))
    h.ensure("ens.accum-enabled", b(V(rx.clk_phase_accum.enable)) == run)
    h.ensure("ens.half-bit-offset", z3.Implies(idle, z3.And(h.n(phase) == K(1 << 31, 32), h.n(tick) == K(0, 1))))
    # --- delivery: exactly at the 10th sample, valid iff that sample (the stop bit) is high, payload = samples 1..8 LSB first
    h.ensure("ens.valid", b(V(src.valid)) == z3.And(sample, ns == K(9, 4), V(rxs) == K(1, 1)))
    h.ensure("ens.data", z3.Implies(b(V(src.valid)), V(src.data) == gb))
    # --- returns to idle after the 10th sample (also when the stop bit is missing) and not earlier
    h.ensure("ens.done", z3.Implies(run, n_idle == z3.And(tk, ns == K(9, 4))))
    # --- termination: in every RUN cycle the elapsed phase grows by the tuning word and is bounded by 10.5 bit periods (+1 step):
    #     with a non-zero tuning word the frame ends after at most ceil(10.5 * 2^32 / tw) + 1 cycles
    h.ensure("ens.progress", z3.Implies(run, z3.And(h.primed(acc) == acc + zx(tw, 40), z3.ULT(acc, K(11 << 32, 40)))))
    h.ensure("ens.bound", z3.Implies(z3.And(run, z3.UGE(acc, K(10 << 32, 40))), z3.And(tk, ns == K(9, 4))))
    h.cover("cover.byte", z3.And(b(V(src.valid)), V(src.data) == K(0xA5, 8)), depth=28)
    h.cover("cover.framing-error", z3.And(sample, ns == K(9, 4), V(rxs) == K(0, 1)), depth=28)
    h.bmc_depth = 28
    h.functions = ["litex.soc.cores.uart.RS232PHYRX.__init__", "litex.soc.cores.uart.RS232ClkPhaseAccum.__init__"]
    return h

def c_uart_rx_link_sym(tmin=12):
    """link-level contract for a SYMBOLIC 32-bit tuning word (bit period 2^32/tw >= tmin cycles, not necessarily an integer): the line is driven by
    a ghost ideal transmitter running at the programmed rate with an arbitrary sub-cycle phase (symbolic initial phase < tw at every start bit),
    symbolic byte, symbolic idle gaps including none.  Every frame is delivered exactly once with the transmitted byte."""
    d, pads = _rx_top([("go", 1), ("byte", 8), ("ph", 32)]); rx = d.rx; src = rx.source
    go, byte, ph = d.aux
    h = HwCheck(f"RS232PHYRX.link(tw symbolic,T>={tmin})", d, [d.tw, pads.rx, go, byte, ph])
    V = h.v
    r0, r1, rxs, rx_d, count, data, phase, tick = _rx_regs(h, rx)
    if rx_d is None: raise SidecarMismatch("RS232PHYRX: the delayed line sample register rx_d (edge detector) is gone: the link-level invariants do not apply")
    st, enc = rx.fsm.state, rx.fsm.encoding
    idle = eqc(V(st), enc["IDLE"]); run = eqc(V(st), enc["RUN"])
    W = 40
    def S(x): return zx(x, W)
    def C(x): return z3.BitVecVal(x, W)
    tw = h.const("tw", 32); T = S(tw)
    BIT = 1 << 32
    h.assume(V(d.tw) == tw, "the tuning word is configuration: constant (rigid symbolic 32-bit value), the same for the ideal transmitter")
    h.assume(z3.And(z3.UGE(tw, K(1, 32)), z3.ULE(tw, K(BIT // tmin, 32))), f"programmed bit period 2^32/tuning_word is at least {tmin} system clock cycles")
    t_act = h.ghost("t_act", 1); t_acc = h.ghost("t_acc", W); t_byte = h.ghost("t_byte", 8); boot = h.ghost("boot", 2); dlv = h.ghost("delivered", 1)
    act = b(t_act); full = boot == K(3, 2)
    end_ = z3.Or(z3.Not(act), t_acc + T >= C(10 * BIT))           # signed compare on 40 bits: all quantities stay far below 2^39
    start = z3.And(end_, b(V(go)))
    h.assume(z3.Implies(z3.Not(full), z3.Not(b(V(go)))), "the line is idle during the first three cycles after reset (the synchroniser resets to 0, the idle level is 1)")
    h.assume(z3.ULT(V(ph), tw), "phase of the transmitter's bit clock relative to the system clock at the start bit: any value in [0, one cycle)")
    h.ghost_next(boot, z3.If(full, boot, boot + 1))
    h.ghost_next(t_act, z3.If(end_, V(go), K(1, 1)))
    ideal_acc = z3.If(start, S(V(ph)), z3.If(end_, C(0), t_acc + T))     # transition function of the ideal transmitter's phase
    h.ghost_next(t_byte, z3.If(start, V(byte), t_byte))
    valid = b(V(src.valid))
    h.ghost_next(dlv, z3.If(start, K(0, 1), z3.If(valid, K(1, 1), dlv)))
    frame = z3.Concat(K(1, 1), t_byte, K(0, 1))                   # bit 0 = start, 1..8 = data LSB first, 9 = stop
    def fbit(idx4): return z3.Extract(0, 0, z3.LShR(frame, zx(idx4, 10)))
    def line_at(x): return z3.If(x < C(0), K(1, 1), fbit(z3.Extract(35, 32, x)))
    line = z3.If(act, line_at(t_acc), K(1, 1))
    h.assume(V(pads.rx) == line, "the rx pad carries the waveform of the ideal transmitter")
    one = K(1, 1); zero = K(0, 1)
    def pipe(a, b_, c): return z3.And(V(r0) == a, V(r1) == b_, V(rx_d) == c)
    # While the receiver is in RUN the transmitter's phase is carried as t_acc == X + E (X = its phase when the receiver entered RUN, constant; E = elapsed
    # receiver phase) and the ghost's next phase is written as X + (E + T) (bit-blasting cannot re-associate sums); `ens.ghost-is-ideal-tx` certifies that
    # in every reachable state this equals the ideal transition function, so the ghost IS the ideal transmitter.
    E = h.ghost("E", W); X = h.ghost("X", W)
    h.ghost_next(E, z3.If(run, E + T, C(0)))
    h.ghost_next(X, z3.If(run, X, ideal_acc))
    h.ghost_next(t_acc, z3.If(run, X + (E + T), ideal_acc))
    e = S(z3.Concat(V(count) + zx(V(tick), 4), V(phase))) - C(BIT // 2)
    h.hint("st", ult(V(st), 2))
    h.hint("boot0", z3.Implies(boot == K(0, 2), z3.And(pipe(zero, zero, zero), idle, z3.Not(act), dlv == zero)))
    h.hint("boot1", z3.Implies(boot == K(1, 2), z3.And(pipe(one, zero, zero), idle, z3.Not(act), dlv == zero)))
    h.hint("boot2", z3.Implies(boot == K(2, 2), z3.And(pipe(one, one, zero), idle, z3.Not(act), dlv == zero)))
    h.hint("tacc.range", z3.If(act, z3.And(t_acc >= C(0), t_acc < C(10 * BIT)), t_acc == C(0)))
    h.hint("quiet", z3.Implies(z3.And(full, z3.Not(act)), z3.And(idle, pipe(one, one, one))))
    h.hint("pipe", z3.Implies(z3.And(full, act), pipe(line_at(t_acc - T), line_at(t_acc - 2 * T), line_at(t_acc - 3 * T))))
    h.hint("pre", z3.Implies(z3.And(act, dlv == zero, idle), t_acc < 3 * T))
    h.hint("pre2", z3.Implies(z3.And(act, t_acc < 3 * T), z3.And(idle, dlv == zero)))
    h.hint("run", z3.Implies(run, z3.And(act, full, dlv == zero, ule(V(count), 9))))
    h.hint("E", z3.Implies(run, z3.And(E == e, E >= C(0), E < C(19 * BIT // 2) + T)))
    h.hint("X.link", z3.Implies(run, t_acc == X + E))
    h.hint("X.window", z3.Implies(run, z3.And(X >= 3 * T, X < 4 * T)))
    h.hint("notend", z3.Implies(run, t_acc + T < C(10 * BIT)))
    h.hint("tickphase", z3.Implies(z3.And(run, b(V(tick))), z3.ULT(V(phase), tw)))
    h.hint("post", z3.Implies(z3.And(act, dlv == one), z3.And(idle, t_acc >= C(9 * BIT) + 3 * T)))
    for n in range(2, 10):
        h.hint(f"asm{n}", z3.Implies(z3.And(run, eqc(V(count), n)), z3.Extract(7, 9 - n, V(data)) == z3.Extract(n - 2, 0, t_byte)))
    sample = z3.And(run, b(V(tick)))
    h.ensure("ens.ghost-is-ideal-tx", z3.Implies(run, h.primed(t_acc) == ideal_acc))                  # (in the other states the two are the same expression)
    h.ensure("ens.sample-in-bit", z3.Implies(sample, V(rxs) == fbit(V(count))))
    h.ensure("ens.recover", z3.Implies(valid, z3.And(act, V(src.data) == t_byte, dlv == zero)))
    h.ensure("ens.all-delivered", z3.Implies(z3.And(act, end_), dlv == one))
    h.ensure("ens.idle-at-end", z3.Implies(z3.And(act, end_), z3.And(idle, V(rxs) == one, V(rx_d) == one)))
    h.ensure("ens.quiet", z3.Implies(z3.And(full, z3.Not(act)), z3.And(idle, z3.Not(valid))))
    seen = h.ghost("seen", 1); early = h.ghost("early", 1)
    h.ghost_next(seen, z3.If(full, one, seen)); h.ghost_next(early, z3.If(z3.And(full, seen == zero), bv1(z3.And(b(V(go)), V(byte) == K(0xA5, 8), V(ph) == K(12345, 32))), early))
    h.cover("cover.sample", z3.And(sample, eqc(V(count), 1), early == one, tw == K(BIT // tmin, 32)), depth=2 * tmin + 10)
    h.bmc_depth = 2 * tmin + 10
    h.functions = ["litex.soc.cores.uart.RS232PHYRX.__init__", "litex.soc.cores.uart.RS232ClkPhaseAccum.__init__"]
    return h

# NOTE (not a case): the same contract with a symbolic transmitter tuning word within +-2% (X' = X + (twt - twr) in RUN, drift bounded by a ghost
# G = cycles * tol with 50 * tol <= twr, hints (X + G) - 3T >= 0, (G - X) + 4T - 1 >= 0, E - 50 * G >= 0) has every hint inductive when the step query is
# split by the FSM state (each < 5 s), but the joint Houdini step query (no unit literal for the state, guarded 40-bit sums under multiplexers) is not
# decided by z3 in 300 s.  The +-2% (+-3.1%) mismatch is therefore covered at concrete bit periods by c_uart_rx_link_int below.

def c_uart_rx_link_int(k=5, dmax=1, deep=True):
    """link-level contract at a concrete programmed bit period of T = 2^k system clock cycles (tuning word 2^(32-k)): the line is driven by a
    ghost ideal transmitter whose bit period is a rigid symbolic integer number of cycles p in [T - dmax, T + dmax] (rate mismatch of
    +-dmax/T >= +-2%), symbolic byte, symbolic idle gaps including none (back-to-back frames); every frame is delivered exactly once with
    the transmitted byte, each sample is taken inside the corresponding bit, the receiver is idle again before the stop bit ends."""
    Tc = 1 << k
    d, pads = _rx_top([("go", 1), ("byte", 8)]); rx = d.rx; src = rx.source
    go, byte = d.aux
    h = HwCheck(f"RS232PHYRX.link(T={Tc},+-{dmax})", d, [d.tw, pads.rx, go, byte])
    V = h.v
    r0, r1, rxs, rx_d, count, data, phase, tick = _rx_regs(h, rx)
    if rx_d is None: raise SidecarMismatch("RS232PHYRX: the delayed line sample register rx_d (edge detector) is gone: the link-level invariants do not apply")
    st, enc = rx.fsm.state, rx.fsm.encoding
    idle = eqc(V(st), enc["IDLE"]); run = eqc(V(st), enc["RUN"])
    one, zero = K(1, 1), K(0, 1)
    h.assume(V(d.tw) == K(1 << (32 - k), 32), f"the receiver is programmed for a bit period of {Tc} system clock cycles (tuning word 2^{32 - k})")
    PW = k + 2; NW = k + 6                                     # widths: cycles within a bit, cycles within a frame
    p = h.const("period", PW)
    h.assume(z3.And(z3.UGE(p, K(Tc - dmax, PW)), z3.ULE(p, K(Tc + dmax, PW))), f"the ideal transmitter's bit period is a constant number of cycles within +-{dmax} of {Tc} (+-{100.0 * dmax / Tc:.1f}% rate mismatch)")
    # ---- ghost ideal transmitter: bit index, cycle within the bit, cycles since the start of the frame
    t_act = h.ghost("t_act", 1); t_bit = h.ghost("t_bit", 4); t_cyc = h.ghost("t_cyc", PW); t_n = h.ghost("t_n", NW); t_byte = h.ghost("t_byte", 8)
    boot = h.ghost("boot", 2); dlv = h.ghost("delivered", 1)
    act = b(t_act); full = boot == K(3, 2)
    lastcyc = t_cyc == p - 1
    end_ = z3.Or(z3.Not(act), z3.And(lastcyc, t_bit == K(9, 4)))
    start = z3.And(end_, b(V(go)))
    h.assume(z3.Implies(z3.Not(full), z3.Not(b(V(go)))), "the line is idle during the first three cycles after reset (the synchroniser resets to 0, the idle level is 1)")
    h.ghost_next(boot, z3.If(full, boot, boot + 1))
    h.ghost_next(t_act, z3.If(end_, V(go), one))
    h.ghost_next(t_bit, z3.If(end_, K(0, 4), z3.If(lastcyc, t_bit + 1, t_bit)))
    h.ghost_next(t_cyc, z3.If(z3.Or(end_, lastcyc), K(0, PW), t_cyc + 1))
    h.ghost_next(t_n, z3.If(end_, K(0, NW), t_n + 1))
    h.ghost_next(t_byte, z3.If(start, V(byte), t_byte))
    valid = b(V(src.valid))
    h.ghost_next(dlv, z3.If(start, zero, z3.If(valid, one, dlv)))
    frame = z3.Concat(one, t_byte, zero)                          # bit 0 = start, 1..8 = data LSB first, 9 = stop
    def fbit(idx4): return z3.Extract(0, 0, z3.LShR(frame, zx(idx4, 10)))
    line = z3.If(act, fbit(t_bit), one)
    h.assume(V(pads.rx) == line, "the rx pad carries the waveform of the ideal transmitter")
    # ---- hints
    P = zx(p, NW)
    def line_ago(j):                                              # line level j cycles ago (j <= 3 < bit period): same bit or the previous one; idle/stop level before the frame
        same = z3.UGE(t_cyc, K(j, PW))
        return z3.If(same, fbit(t_bit), z3.If(t_bit == K(0, 4), one, fbit(t_bit - 1)))
    def pipe(a, b_, c): return z3.And(V(r0) == a, V(r1) == b_, V(rx_d) == c)
    h.hint("st", ult(V(st), 2))
    h.hint("boot0", z3.Implies(boot == K(0, 2), z3.And(pipe(zero, zero, zero), idle, z3.Not(act), dlv == zero)))
    h.hint("boot1", z3.Implies(boot == K(1, 2), z3.And(pipe(one, zero, zero), idle, z3.Not(act), dlv == zero)))
    h.hint("boot2", z3.Implies(boot == K(2, 2), z3.And(pipe(one, one, zero), idle, z3.Not(act), dlv == zero)))
    h.hint("t.range", z3.If(act, z3.And(z3.ULT(t_cyc, p), ule(t_bit, 9)), z3.And(t_cyc == K(0, PW), t_bit == K(0, 4), t_n == K(0, NW))))
    h.hint("t.n", t_n == zx(t_bit, NW) * P + zx(t_cyc, NW))
    h.hint("quiet", z3.Implies(z3.And(full, z3.Not(act)), z3.And(idle, pipe(one, one, one))))
    h.hint("pipe", z3.Implies(z3.And(full, act), pipe(line_ago(1), line_ago(2), line_ago(3))))
    h.hint("pre", z3.Implies(z3.And(act, dlv == zero, idle), ult(t_n, 3)))
    h.hint("pre2", z3.Implies(z3.And(act, ult(t_n, 3)), z3.And(idle, dlv == zero)))
    # receiver position in cycles since it entered RUN: (count + tick) * T + phase / 2^(32-k) - T/2; the transmitter is three cycles ahead
    ptop = z3.Extract(31, 32 - k, V(phase))
    n_rx = zx(z3.Concat(V(count) + zx(V(tick), 4), ptop), NW) - K(Tc // 2, NW)
    h.hint("run", z3.Implies(run, z3.And(act, full, dlv == zero, ule(V(count), 9), z3.Extract(31 - k, 0, V(phase)) == K(0, 32 - k))))
    h.hint("link", z3.Implies(run, t_n == n_rx + 3))
    h.hint("tickphase", z3.Implies(z3.And(run, b(V(tick))), ptop == K(0, k)))
    h.hint("post", z3.Implies(z3.And(act, dlv == one), z3.And(idle, t_bit == K(9, 4), uge(t_cyc, 3))))
    for n in range(2, 10):
        h.hint(f"asm{n}", z3.Implies(z3.And(run, eqc(V(count), n)), z3.Extract(7, 9 - n, V(data)) == z3.Extract(n - 2, 0, t_byte)))
    # ---- postconditions (from the property)
    sample = z3.And(run, b(V(tick)))
    h.ensure("ens.sample-in-bit", z3.Implies(sample, z3.And(V(rxs) == fbit(V(count)), line_ago(2) == fbit(V(count)))))   # the k-th sample is the level of bit k of the frame
    h.ensure("ens.recover", z3.Implies(valid, z3.And(act, V(src.data) == t_byte, dlv == zero)))         # the byte delivered is the byte transmitted, once
    h.ensure("ens.all-delivered", z3.Implies(z3.And(act, end_), dlv == one))                           # every frame is delivered before its stop bit ends
    h.ensure("ens.idle-at-end", z3.Implies(z3.And(act, end_), z3.And(idle, V(rxs) == one, V(rx_d) == one)))  # ready for a start bit that follows immediately
    h.ensure("ens.quiet", z3.Implies(z3.And(full, z3.Not(act)), z3.And(idle, z3.Not(valid))))          # idle line: no byte
    h.cover("cover.sample", z3.And(sample, eqc(V(count), 2), V(rxs) == one), depth=3 * Tc + 8)
    # cover of a complete frame: pinned to the schedule "0xA5 sent in the first possible cycle" so that the deep reachability search is propagation only
    seen = h.ghost("seen", 1); early = h.ghost("early", 1)
    h.ghost_next(seen, z3.If(full, one, seen)); h.ghost_next(early, z3.If(z3.And(full, seen == zero), bv1(z3.And(b(V(go)), V(byte) == K(0xA5, 8))), early))
    if deep:
        h.cover("cover.deliver", z3.And(valid, V(src.data) == K(0xA5, 8), early == one, p == K(Tc, PW)), depth=10 * (Tc + dmax) + 8)
        h.cover("cover.back-to-back", z3.And(act, ult(t_n, 1), dlv == zero, early == one, p == K(Tc, PW), t_byte == K(0x3C, 8)), depth=10 * (Tc + dmax) + 8)   # second frame starts right after the stop bit
        h.bmc_time = 900
    if k >= 6: h.bmc_time = 900                                  # thorough tier only: the cover at depth ~3 bit periods needs more than the default 60 s
    h.bmc_depth = 3 * Tc
    h.functions = ["litex.soc.cores.uart.RS232PHYRX.__init__", "litex.soc.cores.uart.RS232ClkPhaseAccum.__init__"]
    return h

# ------------------------------------------------------------------------------------------------ SPISlave
def c_spi_slave(dw=8):
    """4-wire SPI slave, mode 0.  Stated at the pads (every pad is seen two cycles later through its synchroniser): chip-select framing
    (start / irq pulses, done), `length` = number of clock pulses in the frame, MOSI captured on the rising edge MSB first (stated by
    arrival order), MISO presents the word loaded at `start` MSB first and advances on the falling edge only, loopback."""
    from litex.soc.cores.spi.spi_slave import SPISlave
    d = mk(SPISlave, None, dw); p = d.pads
    h = HwCheck(f"SPISlave({dw})", d, [p.clk, p.cs_n, p.mosi, d.miso, d.loopback])
    V = h.v
    st, enc = d.fsm.state, d.fsm.encoding
    idle = eqc(V(st), enc["IDLE"]); xfer = eqc(V(st), enc["XFER"])
    one, zero = K(1, 1), K(0, 1)
    # the pads as the core sees them: two synchroniser stages (reset 0 = clock low, not selected)
    c1 = h.prev("clk1", V(p.clk)); c2 = h.prev("clk2", c1); c3 = h.prev("clk3", c2)
    s1 = h.prev("sel1", ~V(p.cs_n)); s2 = h.prev("sel2", s1); s3 = h.prev("sel3", s2)
    m1 = h.prev("mosi1", V(p.mosi)); m2 = h.prev("mosi2", m1)
    sync = sorted([s for s in h.ts.state if s not in h.ts.orig_signals and s.nbits == 1], key=lambda s: s.duid)
    assert len(sync) == 6
    for reg, g, n in zip(sync, (c1, c2, s1, s2, m1, m2), ("clk1", "clk2", "sel1", "sel2", "mosi1", "mosi2")): h.hint("sync." + n, V(reg) == g)
    clk_d, miso_data = L(d, "clk_d"), L(d, "miso_data")
    h.hint("sync.clk3", V(clk_d) == c3)
    h.hint("state", V(st) == s3)                          # XFER exactly one cycle behind the (synchronised) chip select
    sel = b(s2); rise = z3.And(b(c2), z3.Not(b(c3))); fall = z3.And(z3.Not(b(c2)), b(c3))
    # partner: SCK may toggle while this slave is deselected (shared bus: traffic for other devices); it is low around every chip-select edge:
    # in the system-clock cycle before the edge, at the edge and in the cycle after it (chip-select setup / hold of one cycle)
    pcs = h.prev("csn", V(p.cs_n), init=1)
    edge = V(p.cs_n) != pcs
    p_edge = h.prev("csedge", bv1(edge))
    h.assume(z3.Implies(edge, z3.And(V(p.clk) == zero, c1 == zero)), "SPI master: SCK is low in the system-clock cycle before a chip-select edge and at the edge (SCK may toggle while CS_n is high: shared bus)")
    h.assume(z3.Implies(b(p_edge), V(p.clk) == zero), "SPI master: SCK is still low in the system-clock cycle after a chip-select edge")
    h.hint("a.pcs", pcs == ~s1)
    s4 = h.prev("sel4", s3)
    h.hint("a.pedge", b(p_edge) == (s1 != s2))
    h.hint("a.e1", z3.Implies(s1 != s2, z3.And(c1 == zero, c2 == zero)))
    h.hint("a.e2", z3.Implies(s2 != s3, z3.And(c1 == zero, c2 == zero, c3 == zero)))
    h.hint("a.e3", z3.Implies(s3 != s4, z3.And(c2 == zero, c3 == zero)))
    # ---- chip-select framing
    h.ensure("ens.start", b(V(d.start)) == z3.And(sel, z3.Not(b(s3))))          # one pulse in the first cycle of the frame
    h.ensure("ens.irq", b(V(d.irq)) == z3.And(z3.Not(sel), b(s3)))              # one pulse in the first cycle after the frame
    h.ensure("ens.done", b(V(d.done)) == z3.And(z3.Not(sel), z3.Not(b(s3))))    # inactive
    h.ensure("ens.idle", eqc(h.n(st), enc["XFER"]) == sel)                      # in XFER while selected, back to IDLE when deselected: never stuck
    # ---- number of clock pulses of the frame
    LW = len(d.length)
    nr = h.ghost("nrise", LW); h.ghost_next(nr, z3.If(sel, z3.If(rise, nr + 1, nr), K(0, LW)))
    h.hint("len", z3.Implies(xfer, V(d.length) == nr))
    h.hint("nr0", z3.Implies(z3.Not(b(s3)), nr == K(0, LW)))
    h.ensure("ens.length", z3.Implies(xfer, V(d.length) == nr))                 # in particular in the irq cycle: the pulses of the whole frame (mod 2^8)
    # ---- MOSI capture on the rising edge, MSB first: the k-th bit of the frame (k = 0 first) is bit n-1-k of `mosi` after n <= dw bits
    rec = [h.ghost(f"rec{k}", 1) for k in range(dw)]
    for k in range(dw): h.ghost_next(rec[k], z3.If(z3.And(sel, rise, nr == K(k, LW)), m2, rec[k]))
    M = V(d.mosi)
    def captured(n): return z3.And(*[z3.Extract(n - 1 - k, n - 1 - k, M) == rec[k] for k in range(n)])
    for n in range(1, dw + 1):
        h.hint(f"cap{n}", z3.Implies(z3.And(b(s3), nr == K(n, LW)), captured(n)))
        h.ensure(f"ens.capture{n}", z3.Implies(z3.And(b(V(d.irq)), nr == K(n, LW)), captured(n)))
    h.ensure("ens.capture-edge", z3.Implies(z3.Not(z3.And(sel, rise)), h.n(d.mosi) == M))       # the captured word only changes on a rising edge inside the frame
    # ---- MISO: the word offered at `start`, MSB first, advanced by falling edges inside the frame
    gm = h.ghost("gmiso", dw); nf = h.ghost("nfall", LW)
    startp = z3.And(sel, z3.Not(b(s3)))
    h.ghost_next(gm, z3.If(startp, V(d.miso), gm))
    h.ghost_next(nf, z3.If(startp, K(0, LW), z3.If(z3.And(sel, fall, ult(nf, dw)), nf + 1, nf)))  # saturates at dw (all bits shifted out)
    def shifted(word, k): return word if k == 0 else (z3.Concat(z3.Extract(dw - 1 - k, 0, word), K(0, k)) if k < dw else K(0, dw))
    for k in range(dw + 1):
        h.hint(f"miso{k}", z3.Implies(z3.And(b(s3), nf == K(k, LW)), V(miso_data) == shifted(gm, k)))
    h.hint("nf", ule(nf, dw))
    for k in range(dw):
        h.ensure(f"ens.miso{k}", z3.Implies(z3.And(xfer, V(d.loopback) == zero, nf == K(k, LW)), V(p.miso) == z3.Extract(dw - 1 - k, dw - 1 - k, gm)))
    h.ensure("ens.miso-edge", z3.Implies(z3.And(z3.Not(startp), z3.Not(z3.And(sel, fall))), h.n(miso_data) == V(miso_data)))   # MISO is stable between falling edges
    h.ensure("ens.loopback", z3.Implies(V(d.loopback) == one, V(p.miso) == m2))
    h.cover("cover.byte", z3.And(b(V(d.irq)), nr == K(dw, LW), M == K(0xA5 & ((1 << dw) - 1), dw)), depth=3 * dw + 10)
    h.cover("cover.miso", z3.And(xfer, nf == K(dw - 1, LW), V(p.miso) == one, V(d.loopback) == zero), depth=3 * dw + 10)
    h.cover("cover.short", z3.And(b(V(d.irq)), nr == K(1, LW)), depth=12)
    h.bmc_depth = 3 * dw + 10
    h.functions = ["litex.soc.cores.spi.spi_slave.SPISlave.__init__"]
    return h

# ------------------------------------------------------------------------------------------------ I2CMaster (litex/soc/cores/i2c.py)
def _i2c_top():
    from migen.fhdl.specials import Tristate
    from litex.soc.cores.i2c import I2CMaster
    class Pads:
        def __init__(self): self.scl = Signal(); self.sda = Signal()
    d = mk(I2CMaster, Pads())
    f = d.get_fragment()
    # the two Tristate buffers are technology primitives (no simulation model): removed, the pad inputs scl_t.i / sda_t.i become environment inputs
    f.specials = {s for s in f.specials if not isinstance(s, Tristate)}
    return d, f

def _c_i2c_common(mode="disciplined"):
    disciplined = mode == "disciplined"
    """Wishbone-programmed I2C master at its pads (open drain: line = not oe).  Legal waveform: SCL and SDA never change in the same cycle; SDA changes
    while SCL is high only as the START / STOP condition of a start / stop command; every command returns to idle (ranking function).
    disciplined=True: software programs the divider (>= 1) before the first command and issues a command only when the core reports idle."""
    d, f = _i2c_top(); bus = d.bus; m = d.i2c
    h = HwCheck(f"I2CMaster({mode})", f, [bus.adr, bus.dat_w, bus.we, bus.cyc, bus.stb, bus.sel, d.scl_t.i, d.sda_t.i])
    V = h.v
    st, enc = m.fsm.state, m.fsm.encoding
    S = {n: eqc(V(st), c) for n, c in enc.items()}
    one, zero = K(1, 1), K(0, 1)
    bits = L(m, "bits"); cnt = [s for s in h.ts.state if s.nbits == 20 and s is not m.cg.load][0]
    h.assume(V(d.scl_t.i) == ~V(d.scl_t.oe), "no clock stretching and no second master: the SCL line is what this master drives (open drain with pull-up)")
    scl = V(m.scl_o); scl_n = h.n(m.scl_o)                          # SCL line = not scl_t.oe = scl_o
    sda = ~V(d.sda_t.oe); sda_n = ~h.n(d.sda_t.oe)                  # SDA as driven by the master
    wr = z3.And(b(V(bus.cyc)), b(V(bus.stb)), z3.Not(b(V(bus.ack))), b(V(bus.we)))
    wr_xfer = z3.And(wr, z3.Extract(0, 0, V(bus.adr)) == zero); wr_cfg = z3.And(wr, z3.Extract(0, 0, V(bus.adr)) == one)
    cmdbits = z3.Extract(12, 9, V(bus.dat_w))
    run = b(V(L(m, "run")))
    # software discipline (mode "disciplined": all of it; "overlap": commands at any time; "div0": the divider is not required to be programmed)
    p_cmd = h.ghost("cmd_recent", 1); cfg = h.ghost("configured", 1)
    is_cmd = z3.And(wr_xfer, cmdbits != K(0, 4))
    h.ghost_next(p_cmd, bv1(is_cmd)); h.ghost_next(cfg, z3.If(wr_cfg, one, cfg))
    quiet = z3.And(b(V(m.idle)), p_cmd == zero)
    if mode in ("disciplined", "div0"):
        h.assume(z3.Implies(wr_xfer, quiet), "software writes the xfer register (command, data and ack fields) only when the core reports idle, and not in the cycle right after a command write")
    if mode in ("disciplined", "overlap"):
        h.assume(z3.Implies(wr_cfg, z3.And(z3.UGE(z3.Extract(19, 0, V(bus.dat_w)), K(1, 20)), quiet)), "the divider is programmed with a value >= 1, only while idle")
        h.assume(z3.Implies(is_cmd, cfg == one), "the divider is programmed before the first command (its reset value 0 is not a usable setting)")
        h.hint("cfg", z3.Implies(cfg == one, z3.UGE(V(m.cg.load), K(1, 20))))
    else:
        h.assume(z3.Implies(wr_cfg, quiet), "the divider is only written while idle")
    strobes = z3.Concat(V(m.start), V(m.stop), V(m.write), V(m.read))
    ce = b(V(m.fsm.ce)); busy = z3.Not(S["IDLE"]); B = V(bits); CNT = V(cnt); LOAD = V(m.cg.load)
    # ---- legal waveform
    h.ensure("ens.no-simultaneous-edge", z3.Not(z3.And(scl != scl_n, sda != sda_n)))               # SDA never moves in the cycle of an SCL edge
    legal = z3.Implies(z3.And(sda != sda_n, scl == one, scl_n == one), z3.And(ce, z3.Or(z3.And(S["START0"], sda_n == zero), z3.And(S["STOP2"], sda_n == one))))
    settled = z3.Implies(z3.And(scl == zero, scl_n == one), sda == V(m.sda_o))                        # at every rising SCL edge the SDA pad carries the level the sequencer intends (data / ack bit)
    if mode == "disciplined":
        h.ensure("ens.start-stop-only-on-command", legal)                                           # SDA moves while SCL is high only as the START / STOP of a start / stop command
        h.ensure("ens.sda-settled-at-rising-scl", settled)
    elif mode == "overlap":
        h.finding("finding.i2c-overlapping-command", z3.And(legal, settled), "a write to the xfer register while a transfer is in flight forces an FSM step (fsm.ce = run | clk2x) and rewrites the shift register: an SCL phase of a single cycle, the SDA update deferred by the pad logic lands while SCL is high = START/STOP condition inside a byte, and the byte on the wire is corrupted (tools/replay_i2c_overlap.py scenario B)")
    else:
        h.finding("finding.i2c-divider-reset-value", settled, "with the divider register at its reset value 0 the sequencer steps every cycle, the 'SCL stable' gate of the SDA pad never opens and SDA does not follow the data: 0xA5 goes out as 0x00 although every command was issued while idle (tools/replay_i2c_overlap.py scenario A)")
    # ---- every command returns to idle: lexicographic ranking (FSM steps still to go, cycles to the next divider tick)
    RW = 6
    def rk(stx, bx):
        bz = zx(bx, RW)
        table = {"IDLE": K(0, RW), "START0": K(1, RW), "RESTART0": K(3, RW), "RESTART1": K(2, RW), "STOP0": K(3, RW), "STOP1": K(2, RW), "STOP2": K(1, RW),
                 "WRITE0": z3.If(bz == K(0, RW), K(3, RW), 2 * bz + 3), "WRITE1": 2 * bz + 2, "READACK0": K(2, RW), "READACK1": K(1, RW),
                 "READ0": K(18, RW), "READ1": z3.If(bz == K(0, RW), K(3, RW), 2 * bz + 3), "READ2": 2 * bz + 2, "WRITEACK0": K(2, RW), "WRITEACK1": K(1, RW)}
        r = K(0, RW)
        for n, c in enc.items(): r = z3.If(eqc(stx, c), table[n], r)
        return r
    r0 = rk(V(st), B); r1 = rk(h.n(st), h.n(bits))
    h.hint("bits<=8", ule(B, 8)); h.hint("bits>=1", z3.Implies(z3.Or(S["WRITE1"], S["READ2"]), uge(B, 1))); h.hint("bits.read", z3.And(z3.Implies(z3.Or(S["READ1"], S["READ2"]), ule(B, 7)), z3.Implies(S["READ0"], B == K(7, 4))))
    h.ensure("ens.rank", z3.Implies(busy, z3.Or(z3.ULT(r1, r0), z3.And(r1 == r0, z3.ULT(h.n(cnt), CNT)))))
    h.ensure("ens.idle-flag", b(V(m.idle)) == z3.And(S["IDLE"], strobes == K(0, 4)))
    h.cover("cover.start", z3.And(S["START0"], ce, sda_n == zero, sda == one), depth=10)             # a START condition is emitted
    h.cover("cover.write-bit", z3.And(S["WRITE1"], ce, B == K(7, 4)), depth=16)
    if mode == "div0": h.cover("cover.write-acked", z3.And(S["READACK1"], ce), depth=24)            # (needs 20 FSM steps: cheap only with the divider at 0)
    h.bmc_depth = 24
    if disciplined:
        gate_closed = V(d.scl_i_n) != V(m.scl_o)
        h.hint("strobes=cmd", (strobes != K(0, 4)) == (p_cmd == one))
        h.hint("strobes->idle", z3.Implies(strobes != K(0, 4), S["IDLE"]))
        h.hint("cmd->cfg", z3.Implies(p_cmd == one, cfg == one)); h.hint("busy->cfg", z3.Implies(busy, cfg == one))
        h.hint("gate->cnt", z3.Implies(gate_closed, z3.And(CNT == LOAD, strobes == K(0, 4))))
        lv = {"START0": (1, None), "RESTART0": (0, None), "RESTART1": (0, 1), "STOP0": (0, None), "STOP1": (0, 0), "STOP2": (1, 0), "WRITE1": (0, None), "READACK0": (0, 1),
              "READACK1": (1, 1), "READ1": (1, None), "READ2": (0, None), "WRITEACK0": (0, None), "WRITEACK1": (1, None)}
        for n, (c_, a_) in lv.items():
            h.hint("lv." + n, z3.Implies(S[n], z3.And(V(m.scl_o) == K(c_, 1), z3.BoolVal(True) if a_ is None else V(m.sda_o) == K(a_, 1))))
    h.functions = ["litex.soc.cores.i2c.I2CMaster.__init__", "litex.soc.cores.i2c.I2CMasterMachine.__init__", "litex.soc.cores.i2c.I2CClockGen.__init__"]
    return h, d, m, S, dict()

def c_i2c(mode="disciplined"):
    h, d, m, S, x = _c_i2c_common(mode)
    return h

# ------------------------------------------------------------------------------------------------ timeline (litex/gen/genlib/misc.py)
def c_timeline(offsets=(0, 2, 5)):
    """a trigger is accepted when no accepted trigger is younger than `last` cycles; the event listed at offset e is executed exactly e cycles after
    the accepted trigger (here: sets a flag register that is otherwise cleared, so the flag is visible one cycle later) and at no other time"""
    from litex.gen.genlib.misc import timeline
    offsets = tuple(offsets); last = max(offsets)
    class Top(LiteXModule):
        def __init__(self):
            self.trigger = Signal()
            self.flags = [Signal(name=f"flag{e}") for e in offsets]
            self.sync += [fl.eq(0) for fl in self.flags]
            self.sync += timeline(self.trigger, [(e, [fl.eq(1)]) for e, fl in zip(offsets, self.flags)])
    d = mk(Top)
    h = HwCheck(f"timeline{list(offsets)}", d, [d.trigger])
    V = h.v; one, zero = K(1, 1), K(0, 1)
    counter = [s for s in h.ts.state if s not in d.flags][0]
    # specification state: hist[k] = a trigger was accepted k cycles ago (k = 1..last)
    hist = [None] + [h.ghost(f"acc{k}", 1) for k in range(1, last + 1)]
    busy = z3.Or(*[hist[k] == one for k in range(1, last + 1)]) if last else z3.BoolVal(False)
    acc = z3.And(b(V(d.trigger)), z3.Not(busy))
    for k in range(1, last + 1): h.ghost_next(hist[k], bv1(acc) if k == 1 else hist[k - 1])
    for k in range(1, last + 1): h.hint(f"pos{k}", (hist[k] == one) == eqc(V(counter), k))
    h.hint("cnt<=last", ule(V(counter), last))
    for e, fl in zip(offsets, d.flags):
        fire = acc if e == 0 else hist[e] == one
        h.ensure(f"ens.event@{e}", b(h.n(fl)) == fire)                      # executed exactly e cycles after the accepted trigger, never otherwise
    h.ensure("ens.idle", eqc(V(counter), 0) == z3.Not(busy))               # idle again exactly `last` cycles after the accepted trigger
    h.cover("cover.last", b(V(d.flags[offsets.index(last)])), depth=last + 4)
    h.functions = ["litex.gen.genlib.misc.timeline"]
    return h

def cases(tier):
    cs = [Case("RS232PHYRX", c_uart_rx),
          Case("RS232PHYRX.link(tw symbolic,T>=12)", c_uart_rx_link_sym, 12),
          Case("RS232PHYRX.link(T=16,+-0)", c_uart_rx_link_int, 4, 0, True),
          Case("RS232PHYRX.link(T=32,+-1)", c_uart_rx_link_int, 5, 1, False),
          Case("SPISlave(8)", c_spi_slave, 8), Case("SPISlave(5)", c_spi_slave, 5),
          Case("I2CMaster(disciplined)", c_i2c, "disciplined"), Case("I2CMaster(overlap)", c_i2c, "overlap"), Case("I2CMaster(div0)", c_i2c, "div0"),
          Case("timeline[0,2,5]", c_timeline, (0, 2, 5)), Case("timeline[1,3]", c_timeline, (1, 3)), Case("timeline[2,7]", c_timeline, (2, 7))]
    if tier == "thorough":
        cs += [Case("RS232PHYRX.link(T=32,+-1,deep)", c_uart_rx_link_int, 5, 1, True), Case("RS232PHYRX.link(T=64,+-2)", c_uart_rx_link_int, 6, 2, False),
               Case("SPISlave(16)", c_spi_slave, 16), Case("SPISlave(32)", c_spi_slave, 32)]
    return cs

ASSUMPTIONS = [
    "RS232PHYRX (per-bit case): no assumption on the line or the tuning word; the k-th sample instant is stated as exact accumulator arithmetic (floor((2^31 + sum of tuning words) / 2^32)), termination needs tuning word != 0",
    "RS232PHYRX (link cases): the rx pad carries the waveform of a ghost ideal transmitter (start, 8 data bits LSB first, stop; symbolic byte, symbolic idle gaps including back-to-back frames; line idle during the first three cycles after reset). (a) 'tw symbolic': rigid symbolic 32-bit tuning word with bit period >= 12 cycles, transmitter at exactly the programmed rate with a symbolic sub-cycle phase at every start bit; in RUN the ghost's phase is carried in a regrouped form and `ens.ghost-is-ideal-tx` certifies that it equals the ideal transition function. (b) concrete programmed bit periods of 16 / 32 (/ 64) cycles with a transmitter bit period that is a rigid symbolic INTEGER number of cycles within +-0 / +-1 (/ +-2), i.e. +-3.1% at T=32. NOT covered: rate mismatch together with a symbolic tuning word (see the note above c_uart_rx_link_int), bit periods below 12 cycles, glitch rejection on the start bit (the receiver does not re-check the start bit at mid-bit; outside C19)",
    "SPISlave: SCK may toggle while the slave is deselected (shared bus); the master keeps SCK low in the system-clock cycle before, at and after every chip-select edge (setup/hold of one cycle) - without this a pulse straddling the edge is captured but not counted in `length`",
    "I2CMaster: Tristate primitives removed from the fragment, SCL pad input = the level this master drives (no clock stretching, single master); mode 'disciplined': xfer register written only while idle, divider programmed >= 1 before the first command and only while idle; 'overlap' / 'div0' drop one of these and carry the findings. Not covered: data/ack bit VALUES against the written byte, litex/soc/cores/bitbang.py (software bit-banging: no hardware sequencing)",
    "timeline: checked through a harness that sets a flag register per listed offset; a timeline whose only offset is 0 cannot be elaborated (Signal(max=1) assertion) and is not a case",
]
