"""C19 (extension): the receiving / slave side of the serial peripherals and the remaining sequencers.
RS232PHYRX  - per-bit contract on an arbitrary line (start detection, mid-bit sampling instants as exact accumulator arithmetic,
              LSB-first assembly, stop-bit check, one-cycle valid, return to idle, termination) and a link-level contract against a
              ghost *ideal transmitter* (symbolic byte, symbolic sub-cycle phase, symbolic idle gaps / back-to-back frames, symbolic
              tuning words with +-2% rate mismatch): every frame is delivered exactly once with the transmitted byte.
SPISlave    - chip-select framing, bit count, MSB-first capture on the rising edge, MISO shifting on the falling edge, done/irq.
I2CMasterMachine / I2CMaster - only legal START/STOP/bit sequences on scl/sda, every command returns to idle.
timeline    - events exactly at the listed offsets after the trigger, returns to idle."""
import z3
from vf.elab import L, locals_of, mk
from vf.hw import *
from migen import *
from litex.gen import LiteXModule
from litex.soc.cores.uart import RS232PHYRX
from vf.core import Case

# ------------------------------------------------------------------------------------------------ RS232PHYRX
class _Pads:
    def __init__(self): self.tx = Signal(); self.rx = Signal()

def _rx_top(extra=()):
    pads = _Pads()
    class Top(LiteXModule):
        def __init__(self):
            self.tw = Signal(32)
            self.rx = RS232PHYRX(pads, self.tw)
            # harness-only free signals (stimulus of the ghost transmitter); kept alive by a dummy comb statement
            self.aux = [Signal(w, name=n) for n, w in extra]
            if self.aux:
                self.dummy = Signal()
                self.comb += self.dummy.eq(Cat(*self.aux) == 0)
    d = mk(Top)
    return d, pads

def _rx_regs(h, rx):
    """the registers of the receiver: the two synchroniser stages created by the MultiReg lowering, and the locals"""
    sync = sorted([s for s in h.ts.state if s not in h.ts.orig_signals and s.nbits == 1], key=lambda s: s.duid)
    assert len(sync) == 2, sync
    phase = [s for s in h.ts.state if s.nbits == 32][0]
    return sync[0], sync[1], L(rx, "rx"), L(rx, "rx_d"), L(rx, "count"), L(rx, "data"), phase, rx.clk_phase_accum.tick

def c_uart_rx():
    """arbitrary line, arbitrary (even changing) tuning word: what the receiver does with the line, bit by bit"""
    d, pads = _rx_top(); rx = d.rx; src = rx.source
    h = HwCheck("RS232PHYRX", d, [d.tw, pads.rx])
    V = h.v
    r0, r1, rxs, rx_d, count, data, phase, tick = _rx_regs(h, rx)
    st, enc = rx.fsm.state, rx.fsm.encoding
    idle = eqc(V(st), enc["IDLE"]); run = eqc(V(st), enc["RUN"])
    n_idle = eqc(h.n(st), enc["IDLE"]); n_run = eqc(h.n(st), enc["RUN"])
    tk = b(V(tick)); tw = V(d.tw)
    # the synchronised line: rx is the pad two cycles ago, rx_d three cycles ago
    p1 = h.prev("line1", V(pads.rx)); p2 = h.prev("line2", p1); p3 = h.prev("line3", p2)
    h.hint("sync0", V(r0) == p1); h.hint("sync1", V(r1) == p2); h.hint("sync2", V(rx_d) == p3)
    h.ensure("ens.sync", z3.And(V(rxs) == p2, V(rx_d) == p3))
    # ghost: number of samples taken in this frame, the byte assembled LSB first from samples 1..8, elapsed extended phase
    ns = h.ghost("nsamples", 4); gb = h.ghost("gbyte", 8); acc = h.ghost("acc", 40, init=1 << 31)
    sample = z3.And(run, tk)
    h.ghost_next(ns, z3.If(idle, K(0, 4), z3.If(sample, ns + 1, ns)))
    nb = gb
    for k in range(1, 9):       # sample k (k = 1..8) is data bit k-1
        bit_k = z3.Concat(*([z3.Extract(7, k, gb)] if k < 8 else []) + [V(rxs)] + ([z3.Extract(k - 2, 0, gb)] if k > 1 else []))
        nb = z3.If(z3.And(sample, ns == K(k, 4)), bit_k, nb)
    h.ghost_next(gb, nb)
    # acc = 2^31 + (sum of the tuning word over the cycles spent in RUN): half a bit period ahead at the start of the frame
    h.ghost_next(acc, z3.If(run, acc + zx(tw, 40), K(1 << 31, 40)))
    h.hint("st", ult(V(st), 2))
    h.hint("ns<=9", z3.Implies(run, ule(ns, 9)))
    h.hint("cnt", z3.Implies(run, V(count) == ns))
    h.hint("acc", z3.Implies(run, z3.And(z3.Extract(31, 0, acc) == V(phase), z3.Extract(39, 32, acc) == zx(ns, 8) + zx(V(tick), 8))))
    for n in range(2, 10):
        h.hint(f"asm{n}", z3.Implies(z3.And(run, ns == K(n, 4)), z3.Extract(7, 9 - n, V(data)) == z3.Extract(n - 2, 0, gb)))
    # --- start-bit detection: leaves idle exactly on a falling edge of the synchronised line
    h.ensure("ens.start", z3.Implies(idle, n_run == z3.And(p2 == K(0, 1), p3 == K(1, 1))))
    # --- sampling instants: the number of samples taken so far (including the one of this cycle) is floor((2^31 + elapsed phase) / 2^32):
    #     the k-th sample is taken (k + 1/2) bit periods after the detection, rounded up to the next cycle (+1 for the tick register)
    h.ensure("ens.sample-instant", z3.Implies(run, z3.Extract(39, 32, acc) == zx(ns, 8) + zx(V(tick), 8)))
    h.ensure("ens.accum-enabled", b(V(rx.clk_phase_accum.enable)) == run)
    h.ensure("ens.half-bit-offset", z3.Implies(idle, z3.And(h.n(phase) == K(1 << 31, 32), h.n(tick) == K(0, 1))))
    # --- delivery: exactly at the 10th sample, valid iff that sample (the stop bit) is high, payload = samples 1..8 LSB first
    h.ensure("ens.valid", b(V(src.valid)) == z3.And(sample, ns == K(9, 4), V(rxs) == K(1, 1)))
    h.ensure("ens.data", z3.Implies(b(V(src.valid)), V(src.data) == gb))
    # --- returns to idle after the 10th sample (also when the stop bit is missing) and not earlier
    h.ensure("ens.done", z3.Implies(run, n_idle == z3.And(tk, ns == K(9, 4))))
    # --- termination: in every RUN cycle the elapsed phase grows by the tuning word and is bounded by 10.5 bit periods (+1 step):
    #     with a non-zero tuning word the frame ends after at most ceil(10.5 * 2^32 / tw) + 1 cycles
    h.ensure("ens.progress", z3.Implies(run, z3.And(h.primed(acc) == acc + zx(tw, 40), z3.ULT(acc, K(11 << 32, 40)))))
    h.ensure("ens.bound", z3.Implies(z3.And(run, z3.UGE(acc, K(10 << 32, 40))), z3.And(tk, ns == K(9, 4))))
    h.cover("cover.byte", z3.And(b(V(src.valid)), V(src.data) == K(0xA5, 8)), depth=28)
    h.cover("cover.framing-error", z3.And(sample, ns == K(9, 4), V(rxs) == K(0, 1)), depth=28)
    h.bmc_depth = 28
    h.functions = ["litex.soc.cores.uart.RS232PHYRX.__init__", "litex.soc.cores.uart.RS232ClkPhaseAccum.__init__"]
    return h

def c_uart_rx_link(tmin=10, ppm50=True):
    """the line is driven by a ghost ideal transmitter (start, 8 data bits LSB first, stop; one bit per 2^32/twt cycles, arbitrary
    sub-cycle phase, arbitrary idle gaps including none); receiver programmed with twr, |twt - twr| <= 2% of twr, bit period >= tmin cycles"""
    d, pads = _rx_top([("go", 1), ("byte", 8), ("ph", 32)]); rx = d.rx; src = rx.source
    go, byte, ph = d.aux
    h = HwCheck(f"RS232PHYRX.link(T>={tmin})", d, [d.tw, pads.rx, go, byte, ph])
    V = h.v
    r0, r1, rxs, rx_d, count, data, phase, tick = _rx_regs(h, rx)
    st, enc = rx.fsm.state, rx.fsm.encoding
    idle = eqc(V(st), enc["IDLE"]); run = eqc(V(st), enc["RUN"])
    W = 40
    def S(x): return zx(x, W)
    def C(x): return z3.BitVecVal(x, W)
    twr = h.const("twr", 32); twt = h.const("twt", 32); R = S(twr); T = S(twt)
    BIT = 1 << 32
    h.assume(V(d.tw) == twr, "the receiver's tuning word is configuration: constant (rigid symbolic 32-bit value)")
    h.assume(z3.And(z3.UGE(twr, K(1, 32)), z3.ULE(twr, K(BIT // tmin, 32))), f"programmed bit period 2^32/tuning_word is at least {tmin} system clock cycles")
    tol = h.const("tol", 32); TOL = S(tol)
    h.assume(z3.And((T - R) + TOL >= C(0), (R - T) + TOL >= C(0), R - 50 * TOL >= C(0), z3.ULE(twt, K(BIT // 8, 32)), z3.ULE(tol, K(BIT // 64, 32))),
             "the transmitter's bit rate is within +-2% of the programmed one: |twt - twr| <= tol with 50 * tol <= twr, i.e. |twt - twr| <= floor(twr / 50) (rigid symbolic tuning word of the ideal transmitter)")
    # ---- ghost ideal transmitter
    t_act = h.ghost("t_act", 1); t_acc = h.ghost("t_acc", W); t_byte = h.ghost("t_byte", 8); boot = h.ghost("boot", 2); dlv = h.ghost("delivered", 1)
    act = b(t_act); full = boot == K(3, 2)
    end_ = z3.Or(z3.Not(act), t_acc + T >= C(10 * BIT))           # signed compare on 48 bits: all quantities stay far below 2^47
    start = z3.And(end_, b(V(go)))
    h.assume(z3.Implies(z3.Not(full), z3.Not(b(V(go)))), "the line is idle during the first three cycles after reset (the synchroniser resets to 0, the idle level is 1)")
    h.assume(z3.ULT(V(ph), twt), "phase of the transmitter's bit clock relative to the system clock at the start bit: any value in [0, one cycle)")
    h.ghost_next(boot, z3.If(full, boot, boot + 1))
    h.ghost_next(t_act, z3.If(end_, V(go), K(1, 1)))
    ideal_acc = z3.If(start, S(V(ph)), z3.If(end_, C(0), t_acc + T))     # transition function of the ideal transmitter's phase
    h.ghost_next(t_byte, z3.If(start, V(byte), t_byte))
    valid = b(V(src.valid))
    h.ghost_next(dlv, z3.If(start, K(0, 1), z3.If(valid, K(1, 1), dlv)))
    frame = z3.Concat(K(1, 1), t_byte, K(0, 1))                   # bit 0 = start, 1..8 = data LSB first, 9 = stop
    def fbit(idx4): return z3.Extract(0, 0, z3.LShR(frame, zx(idx4, 10)))
    def line_at(x):                                               # line level at extended phase x of the current frame (idle/stop level before it)
        return z3.If(x < C(0), K(1, 1), fbit(z3.Extract(35, 32, x)))
    line = z3.If(act, line_at(t_acc), K(1, 1))
    h.assume(V(pads.rx) == line, "the rx pad carries the waveform of the ideal transmitter")
    # ---- hints (from the code): synchroniser content, receiver position relative to the transmitter
    one = K(1, 1); zero = K(0, 1)
    def pipe(a, b_, c): return z3.And(V(r0) == a, V(r1) == b_, V(rx_d) == c)
    h.hint("st", ult(V(st), 2))
    h.hint("boot0", z3.Implies(boot == K(0, 2), z3.And(pipe(zero, zero, zero), idle, z3.Not(act), dlv == zero)))
    h.hint("boot1", z3.Implies(boot == K(1, 2), z3.And(pipe(one, zero, zero), idle, z3.Not(act), dlv == zero)))
    h.hint("boot2", z3.Implies(boot == K(2, 2), z3.And(pipe(one, one, zero), idle, z3.Not(act), dlv == zero)))
    h.hint("tacc.range", z3.If(act, z3.And(t_acc >= C(0), t_acc < C(10 * BIT)), t_acc == C(0)))
    h.hint("quiet", z3.Implies(z3.And(full, z3.Not(act)), z3.And(idle, pipe(one, one, one))))
    h.hint("pipe", z3.Implies(z3.And(full, act), pipe(line_at(t_acc - T), line_at(t_acc - 2 * T), line_at(t_acc - 3 * T))))
    h.hint("pre", z3.Implies(z3.And(act, dlv == zero, idle), t_acc < 3 * T))
    h.hint("pre2", z3.Implies(z3.And(act, t_acc < 3 * T), z3.And(idle, dlv == zero)))
    e = S(z3.Concat(V(count) + zx(V(tick), 4), V(phase))) - C(BIT // 2)      # phase elapsed in the receiver since it entered RUN (real registers)
    # ghost copies that keep the drift argument additive: E = elapsed receiver phase, X = t_acc - E - 3*T = phase of the transmitter at the
    # detection (in [0, T)) plus the accumulated drift; per cycle X moves by the rigid amount T - R, |50 * (T - R)| <= R
    # While the receiver is in RUN the transmitter's phase is carried as t_acc == X + E + 3*T, with E = elapsed receiver phase (+R per cycle) and
    # X = transmitter phase at the detection (in [0, T)) plus the accumulated drift (+(T-R) per cycle); G = (cycles in RUN) * tol bounds the drift.
    # In RUN the ghost's next phase is written in this regrouped form (bit-blasting cannot re-associate sums); `ens.ghost-is-ideal-tx` below
    # certifies that in every reachable state it equals the ideal transition function (t_acc + T), so the ghost IS the ideal transmitter.
    E = h.ghost("E", W); X = h.ghost("X", W); G = h.ghost("G", W)
    GMAX = int(0.1911 * BIT)
    h.ghost_next(E, z3.If(run, E + R, C(0)))
    h.ghost_next(X, z3.If(run, X + (T - R), t_acc - 2 * T))
    h.ghost_next(G, z3.If(run, G + TOL, C(0)))
    h.ghost_next(t_acc, z3.If(run, ((X + (T - R)) + (E + R)) + 3 * T, ideal_acc))
    h.hint("run", z3.Implies(run, z3.And(act, full, dlv == zero, ule(V(count), 9))))
    h.hint("E", z3.Implies(run, z3.And(E == e, E >= C(0), E < C(19 * BIT // 2) + R)))
    h.hint("X.link", z3.Implies(run, t_acc == (X + E) + 3 * T))
    h.hint("lo", z3.Implies(run, X + G >= C(0)))
    h.hint("hi", z3.Implies(run, (G - X) + (T - 1) >= C(0)))
    h.hint("E-50G", z3.Implies(run, E - 50 * G >= C(0)))
    h.hint("G.range", z3.Implies(run, z3.And(G >= C(0), G <= C(GMAX))))
    h.hint("X.range", z3.Implies(run, z3.And(X > C(-BIT), X < C(BIT))))
    h.hint("notend", z3.Implies(run, t_acc + T < C(10 * BIT)))
    h.hint("tickphase", z3.Implies(z3.And(run, b(V(tick))), z3.ULT(V(phase), twr)))
    h.hint("post", z3.Implies(z3.And(act, dlv == one), z3.And(idle, t_acc >= C(9 * BIT) + 3 * T)))
    for n in range(2, 10):
        h.hint(f"asm{n}", z3.Implies(z3.And(run, eqc(V(count), n)), z3.Extract(7, 9 - n, V(data)) == z3.Extract(n - 2, 0, t_byte)))
    # ---- postconditions (from the property)
    sample = z3.And(run, b(V(tick)))
    h.ensure("ens.ghost-is-ideal-tx", z3.Implies(run, h.primed(t_acc) == ideal_acc))                # (in the other states the two are the same expression)
    h.ensure("ens.sample-in-bit", z3.Implies(sample, V(rxs) == fbit(V(count))))                      # the k-th sample is taken inside bit k of the frame
    h.ensure("ens.recover", z3.Implies(valid, z3.And(act, V(src.data) == t_byte, dlv == zero)))         # the byte delivered is the byte transmitted, once
    h.ensure("ens.all-delivered", z3.Implies(z3.And(act, end_), dlv == one))                           # every frame is delivered before its stop bit ends
    h.ensure("ens.idle-at-end", z3.Implies(z3.And(act, end_), z3.And(idle, V(rxs) == one, V(rx_d) == one)))  # ready for a start bit that follows immediately
    h.ensure("ens.quiet", z3.Implies(z3.And(full, z3.Not(act)), z3.And(idle, z3.Not(valid))))          # idle line: no byte
    h.cover("cover.deliver", z3.And(valid, V(src.data) == K(0xA5, 8)), depth=10 * tmin + 8)
    h.bmc_depth = 10 * tmin + 8
    h.functions = ["litex.soc.cores.uart.RS232PHYRX.__init__", "litex.soc.cores.uart.RS232ClkPhaseAccum.__init__"]
    return h

def cases(tier):
    cs = [Case("RS232PHYRX", c_uart_rx)]
    return cs

ASSUMPTIONS = []
