"""C09 (AXI4 <-> AXI-Lite bridges): AXI2AXILite (burst expansion through AXIBurst2Beat, one AXI-Lite access per beat) and AXILite2AXI.
Top-level clauses from the property: per-beat flat-memory addressing by the AMBA burst formula, bursts fully and correctly answered
(len+1 R beats, last on the final one, ids echoed, one B per write burst after all its data), error responses propagated, and only
protocol-legal transfers towards the slave (raised valids held with stable payload)."""
import z3
from .axilib import *
from litex.soc.interconnect.axi import AXIInterface, AXILiteInterface
from litex.soc.interconnect.axi.axi_full_to_axi_lite import AXI2AXILite, AXILite2AXI
from vf.core import Case

WB = 24
def _Z(x): return zx(x, WB)
def burst_legal(addr, blen, bsize, btype, maxsize):
    """AMBA A3.4.1: size within the bus; WRAP has 2/4/8/16 beats and an aligned start; INCR does not cross a 4 KB boundary"""
    size_b = z3.BitVecVal(1, WB) << _Z(bsize); total = (_Z(blen) + 1) * size_b
    return z3.And(ule(bsize, maxsize), ule(btype, 2),
                  z3.Implies(btype == K(2, 2), z3.And(z3.Or(blen == K(1, 8), blen == K(3, 8), blen == K(7, 8), blen == K(15, 8)), (_Z(addr) & (size_b - 1)) == 0)),
                  z3.Implies(btype == K(1, 2), z3.ULE((_Z(addr) & K(4095, WB)) + total - (_Z(addr) & (size_b - 1)), K(4096, WB))))
def burst_off(addr, blen, bsize, btype, n):
    """AMBA: byte offset of beat n relative to the start address (FIXED: 0, INCR: n*size, WRAP: wraps inside the aligned container)"""
    size_b = z3.BitVecVal(1, WB) << _Z(bsize); total = (_Z(blen) + 1) * size_b
    inc = zx(n, WB) * size_b; base = _Z(addr) & ~(total - 1)
    wrapped = base + ((_Z(addr) - base + inc) & (total - 1)) - _Z(addr)
    return z3.If(btype == K(0, 2), z3.BitVecVal(0, WB), z3.If(btype == K(1, 2), inc, wrapped))

PIPE_RD = ("AXI2AXILite marks every R beat as last once the final AR of the burst has been accepted (r.last = _cmd_done): with an AXI-Lite slave that accepts "
           "several read addresses before it returns data (allowed by AXI4-Lite) the burst is ended after its first data beat and the remaining R beats are left over")
PIPE_WR = ("AXI2AXILite leaves the WRITE state when the last W beat is accepted, whether or not every AW beat has been issued: with an AXI-Lite slave that accepts "
           "write data before the matching write address (allowed by AXI4-Lite) the remaining AW beats are dropped and AXIBurst2Beat is left inside the burst")
ERR = "AXI2AXILite answers every burst with RESP_OKAY (r.resp / b.resp are constants, B of the slave is accepted and dropped): slave error responses are not propagated"

def c_axi2axil(simple=True):
    AW, DW, IDW = 16, 32, 2
    m = AXIInterface(data_width=DW, address_width=AW, id_width=IDW); s = AXILiteInterface(data_width=DW, address_width=AW)
    d = mk(AXI2AXILite, m, s)
    ins = [m.aw.valid] + pay(m.aw) + [m.w.valid, m.w.last] + pay(m.w) + [m.b.ready, m.ar.valid] + pay(m.ar) + [m.r.ready] + slave_side_inputs(s)
    h = HwCheck(f"AXI2AXILite({'single-outstanding slave' if simple else 'pipelined slave'})", d, ins)
    V = h.v
    F = lambda ep: fire(h, ep)
    MAXS = (DW // 8).bit_length() - 1
    # ---- environment: AXI master
    st_aw, _ = src_env(h, m.aw, "m.aw"); st_ar, _ = src_env(h, m.ar, "m.ar"); st_w, _ = src_env(h, m.w, "m.w")
    p_wlast = h.prev("mwlast", V(m.w.last))
    h.assume(z3.Implies(b(st_w), V(m.w.last) == p_wlast), "AXI channel source holds valid and payload until ready (W last flag)")
    for ch in (m.aw, m.ar):
        h.assume(z3.Implies(b(V(ch.valid)), burst_legal(V(ch.addr), V(ch.len), V(ch.size), V(ch.burst), MAXS)),
                 "burst requests are AXI-legal (size within the bus; WRAP: 2/4/8/16 beats, aligned start; INCR within a 4KB page)")
    # ---- environment: AXI-Lite slave
    src_env(h, s.r, "s.r"); src_env(h, s.b, "s.b")
    # ---- specification state
    mode = h.ghost("mode", 2)                                          # 0 idle, 1 read burst, 2 write burst
    gaddr = h.ghost("gaddr", AW); glen = h.ghost("glen", 8); gsize = h.ghost("gsize", 3); gtype = h.ghost("gtype", 2); gid = h.ghost("gid", IDW)
    na = h.ghost("na", 9); nr = h.ghost("nr", 9); nw = h.ghost("nw", 9); werr = h.ghost("werr", 1)
    idle, rd, wr = mode == K(0, 2), mode == K(1, 2), mode == K(2, 2)
    ar_f, aw_f = F(m.ar), F(m.aw)
    s_arf, s_awf, s_wf, s_rf, s_bf, m_rf, m_bf, m_wf = F(s.ar), F(s.aw), F(s.w), F(s.r), F(s.b), F(m.r), F(m.b), F(m.w)
    L9 = zx(glen, 9)
    rd_done = z3.And(rd, m_rf, nr == L9); wr_done = z3.And(wr, m_bf)
    h.ghost_next(mode, z3.If(idle, z3.If(ar_f, K(1, 2), z3.If(aw_f, K(2, 2), K(0, 2))), z3.If(z3.Or(rd_done, wr_done), K(0, 2), mode)))
    for g, far, faw in ((gaddr, m.ar.addr, m.aw.addr), (glen, m.ar.len, m.aw.len), (gsize, m.ar.size, m.aw.size), (gtype, m.ar.burst, m.aw.burst), (gid, m.ar.id, m.aw.id)):
        h.ghost_next(g, z3.If(z3.And(idle, ar_f), V(far), z3.If(z3.And(idle, aw_f), V(faw), g)))
    start = z3.And(idle, z3.Or(ar_f, aw_f))
    h.ghost_next(na, z3.If(start, K(0, 9), z3.If(z3.Or(s_arf, s_awf), na + 1, na)))
    h.ghost_next(nr, z3.If(start, K(0, 9), z3.If(m_rf, nr + 1, nr)))
    h.ghost_next(nw, z3.If(start, K(0, 9), z3.If(s_wf, nw + 1, nw)))
    nb = h.ghost("nb", 9)                                               # B responses of the slave counted against the address/data pairs of this burst
    pairs = z3.If(z3.ULE(na, nw), na, nw)
    h.ghost_next(nb, z3.If(start, K(0, 9), z3.If(z3.And(s_bf, z3.ULT(nb, pairs)), nb + 1, nb)))
    h.ghost_next(werr, z3.If(start, K(0, 1), z3.If(z3.And(wr, s_bf, z3.ULT(nb, pairs), V(s.b.resp) != K(0, 2)), K(1, 1), werr)))   # an error response to a completed transfer of this burst
    # master W beats: last exactly on beat len of the burst being written
    h.assume(z3.Implies(z3.And(wr, b(V(m.w.valid))), b(V(m.w.last)) == (nw == L9)), "AXI master sends len+1 W beats, last on the final one")
    # slave behaviour scenarios
    owed = na - nr
    if simple:
        h.assume(z3.Implies(s_arf, na == nr), "scenario: the AXI-Lite slave has at most one read outstanding (it accepts an address only when it owes no data)")
        h.assume(z3.Implies(s_wf, z3.Or(z3.UGT(na, nw), s_awf)), "scenario: the AXI-Lite slave accepts write data only with or after the matching write address")
    h.assume(z3.Implies(b(V(s.r.valid)), z3.And(rd, z3.UGT(na, nr))), "AXI-Lite slave returns R only for an accepted, unanswered AR")
    # ---- postconditions
    mask = (1 << AW) - 1
    def want(n_): return z3.LShR((_Z(gaddr) + burst_off(gaddr, glen, gsize, gtype, n_)) & K(mask, WB), _Z(gsize))
    got = lambda a: z3.LShR(_Z(V(a)), _Z(gsize))
    if simple:
        h.ensure("ens.rd.ar", z3.Implies(b(V(s.ar.valid)), z3.And(rd, z3.ULE(na, L9), got(s.ar.addr) == want(na))))            # beat k reads the AMBA address of beat k; at most len+1 addresses
        h.ensure("ens.wr.aw", z3.Implies(b(V(s.aw.valid)), z3.And(wr, z3.ULE(na, L9), got(s.aw.addr) == want(na))))
        h.ensure("ens.wr.w", z3.And(z3.Implies(b(V(s.w.valid)), z3.And(wr, b(V(m.w.valid)), V(s.w.data) == V(m.w.data), V(s.w.strb) == V(m.w.strb), z3.ULE(nw, L9))), s_wf == m_wf))
        h.ensure("ens.accept", z3.And(z3.Implies(z3.Or(ar_f, aw_f), idle), z3.Not(z3.And(ar_f, aw_f))))                                # one burst at a time, accepted once
    rclause = z3.Implies(b(V(m.r.valid)), z3.And(rd, b(V(s.r.valid)), V(m.r.data) == V(s.r.data), V(m.r.id) == gid, b(V(m.r.last)) == (nr == L9), z3.ULE(nr, L9)))
    bclause = z3.Implies(b(V(m.b.valid)), z3.And(wr, nw == L9 + 1, na == L9 + 1, V(m.b.id) == gid))                              # one B per burst, after all its data and addresses
    if simple:
        h.ensure("ens.rd.r", rclause); h.ensure("ens.rd.r-consumed", s_rf == m_rf)
        h.ensure("ens.wr.b", bclause)
        h.finding("finding.err.r", z3.Implies(b(V(m.r.valid)), V(m.r.resp) == V(s.r.resp)), ERR)
        h.finding("finding.err.b", z3.Implies(z3.And(b(V(m.b.valid)), b(werr)), V(m.b.resp) != K(0, 2)), ERR)
    else:
        h.finding("finding.pipelined.rd", rclause, PIPE_RD)
        h.finding("finding.pipelined.wr", bclause, PIPE_WR)
    if simple:
        for ep, nm in ((s.ar, "s.ar"), (s.aw, "s.aw"), (s.w, "s.w"), (m.r, "m.r"), (m.b, "m.b")): src_guarantee(h, ep, nm)
        stalled_r = z3.And(b(V(m.r.valid)), z3.Not(b(V(m.r.ready))))
        h.ensure_seq("ens.stable.m.r.last", lambda at: z3.Implies(at(stalled_r, 0), at(V(m.r.last), 1) == at(V(m.r.last), 0)))
        # progress, beat by beat (a burst has len+1 beats, so bounded per-beat response gives completion)
        rcoop = z3.And(b(V(m.r.ready)), b(V(s.ar.ready)) == (na == nr), b(V(s.r.valid)) == z3.UGT(na, nr))
        h.respond("resp.rd.beat", rcoop, z3.Or(s_arf, m_rf), 3, start=rd)
        wcoop = z3.And(b(V(m.b.ready)), b(V(s.aw.ready)), b(V(s.w.ready)), z3.Implies(z3.ULE(nw, L9), b(V(m.w.valid))))
        h.respond("resp.wr.beat", wcoop, z3.Or(s_awf, s_wf, m_bf), 3, start=wr)
        h.respond("resp.accept", z3.BoolVal(True), z3.Or(ar_f, aw_f), 2, start=z3.And(idle, z3.Or(b(V(m.ar.valid)), b(V(m.aw.valid)))))
    # ---- invariants from the code
    try:
        st, enc = d.fsm.state, d.fsm.encoding; S = lambda n_: eqc(V(st), enc[n_])
        buf = L(d, "ax_buffer"); b2b = L(d, "ax_burst2beat"); cd = L(d, "_cmd_done")
        bc, bo = L(b2b, "beat_count"), L(b2b, "beat_offset"); bs = buf.source
        h.hint("st", ult(V(st), len(enc)))
        h.hint("idle", S("IDLE") == idle); h.hint("read", S("READ") == rd); h.hint("write", z3.Or(S("WRITE"), S("WRITE-RESP")) == wr)
        h.hint("buf", b(V(bs.valid)) == z3.Not(idle))
        h.hint("buf.req", z3.Implies(z3.Not(idle), z3.And(V(bs.addr) == gaddr, V(bs.len) == glen, V(bs.size) == gsize, V(bs.burst) == gtype, V(bs.id) == gid)))
        h.hint("legal", z3.Implies(z3.Not(idle), burst_legal(gaddr, glen, gsize, gtype, MAXS)))
        nmin = z3.If(z3.ULE(na, L9), na, L9)
        h.hint("count", z3.Implies(z3.Not(idle), zx(V(bc), 9) == nmin))
        h.hint("offset", z3.Implies(z3.Not(idle), sx(V(bo), WB) == burst_off(gaddr, glen, gsize, gtype, nmin)))
        h.hint("idle.b2b", z3.Implies(idle, z3.And(V(bc) == K(0, 8), V(bo) == K(0, V(bo).size()))))
        h.hint("na<=len+1", z3.ULE(na, L9 + 1))
        h.hint("cmd_done", z3.Implies(z3.Not(idle), b(V(cd)) == (na == L9 + 1)))
        if simple:
            h.hint("rd.nr", z3.Implies(rd, z3.And(z3.ULE(nr, na), z3.ULE(na, nr + 1), z3.ULE(nr, L9))))
            h.hint("wr.nw", z3.Implies(wr, z3.And(z3.ULE(nw, na), z3.ULE(nw, L9 + 1))))
            h.hint("wresp", z3.Implies(wr, S("WRITE-RESP") == (nw == L9 + 1)))
    except (AttributeError, KeyError, TypeError) as e: h.note = f"hints skipped: {e!r}"
    h.use_auto = False
    h.cover("cover.rd.burst", z3.And(rd_done, glen == K(2, 8)), depth=12)
    h.cover("cover.wr.burst", z3.And(wr_done, glen == K(1, 8)), depth=12)
    h.cover("cover.wrap", z3.And(s_arf, gtype == K(2, 2), na == K(2, 9)), depth=10)
    h.bmc_depth = 14
    h.functions = ["litex.soc.interconnect.axi.axi_full_to_axi_lite.AXI2AXILite.__init__", "litex.soc.interconnect.axi.axi_full.AXIBurst2Beat.__init__ (flattened)", "litex.soc.interconnect.stream.Buffer (flattened)"]
    return h

def c_axil2axi(burst_type="INCR"):
    AW, DW = 16, 32
    s_ = AXILiteInterface(data_width=DW, address_width=AW); a = AXIInterface(data_width=DW, address_width=AW, id_width=2)
    class Top(LiteXModule):
        def __init__(self): self.bridge = AXILite2AXI(s_, a, write_id=2, read_id=1, prot=5, burst_type=burst_type)
    d = mk(Top)
    ins = master_side_inputs(s_) + [a.aw.ready, a.w.ready, a.b.valid, a.b.resp, a.b.id, a.ar.ready, a.r.valid, a.r.resp, a.r.data, a.r.id, a.r.last]
    h = HwCheck(f"AXILite2AXI({burst_type})", d, ins)
    V = h.v
    bt = {"FIXED": 0, "INCR": 1, "WRAP": 2}[burst_type]
    for ch, idv in (("aw", 2), ("ar", 1)):
        f, t = getattr(s_, ch), getattr(a, ch)
        h.ensure(f"ens.{ch}", z3.And(V(t.valid) == V(f.valid), V(f.ready) == V(t.ready), V(t.addr) == V(f.addr), V(t.len) == K(0, 8), V(t.size) == K(2, 3),
                                     V(t.burst) == K(bt, 2), V(t.id) == K(idv, 2), V(t.lock) == K(0, 1), V(t.prot) == K(5, 3)))     # single full-width beat at the same address
    h.ensure("ens.w", z3.And(V(a.w.valid) == V(s_.w.valid), V(s_.w.ready) == V(a.w.ready), V(a.w.data) == V(s_.w.data), V(a.w.strb) == V(s_.w.strb), b(V(a.w.last))))
    h.ensure("ens.b", z3.And(V(s_.b.valid) == V(a.b.valid), V(a.b.ready) == V(s_.b.ready), V(s_.b.resp) == V(a.b.resp)))            # errors propagated
    h.ensure("ens.r", z3.And(V(s_.r.valid) == V(a.r.valid), V(a.r.ready) == V(s_.r.ready), V(s_.r.resp) == V(a.r.resp), V(s_.r.data) == V(a.r.data)))
    h.cover("cover.rd", z3.And(b(V(a.ar.valid)), b(V(a.ar.ready))), depth=2)
    h.functions = ["litex.soc.interconnect.axi.axi_full_to_axi_lite.AXILite2AXI.__init__"]
    return h

def cases(tier):
    return [Case("AXI2AXILite(simple)", c_axi2axil, True, timeout=1200), Case("AXI2AXILite(pipelined)", c_axi2axil, False, timeout=1200),
            Case("AXILite2AXI(INCR)", c_axil2axi, "INCR"), Case("AXILite2AXI(FIXED)", c_axil2axi, "FIXED")]

ASSUMPTIONS = ["AXI2AXILite is proved against AXI-Lite slaves with at most one read outstanding and write data accepted with/after its address; the pipelined-slave scenario is a listed finding",
               "AXI master: channel payloads held until ready, legal bursts, len+1 W beats with last on the final one"]

# ---------------------------------------------------------------------------------------------------------------- AHB -> Wishbone
from litex.soc.interconnect import ahb as _ahb, wishbone as _wb
AHB_SEQ = ("AHB2Wishbone starts a Wishbone cycle only for NONSEQUENTIAL transfers: the SEQUENTIAL beats of an AHB burst are answered with a zero-wait OKAY and no "
           "bus access (writes lost, reads return the previous rdata)")
AHB_ERR = ("AHB2Wishbone drives hresp only combinationally during the wait cycle in which wishbone.err is seen (readyout low); in the cycle that completes the transfer "
           "(readyout high) hresp is low again, so the AHB master, which samples hresp with hready high (two-cycle error response), sees OKAY")

def c_ahb2wb(dw=32, addressing="word"):
    AW = 16
    a = _ahb.AHBInterface(data_width=dw, address_width=AW); w = _wb.Interface(data_width=dw, address_width=AW, addressing=addressing)
    class Top(LiteXModule):
        def __init__(self): self.bridge = _ahb.AHB2Wishbone(a, w)
    d = mk(Top)
    ins = [a.addr, a.burst, a.mastlock, a.prot, a.size, a.trans, a.wdata, a.write, a.sel, w.dat_r, w.ack, w.err]
    h = HwCheck(f"AHB2Wishbone(dw={dw},{addressing})", d, ins)
    V = h.v
    NB = dw // 8; SH = NB.bit_length() - 1; shift = SH if addressing == "word" else 0
    ready = b(V(a.readyout))
    # AHB-Lite master: the address phase of the next transfer is held while hready is low
    ctl = cat(V(a.addr), V(a.size), V(a.trans), V(a.write), V(a.sel), V(a.burst))
    p_ctl = h.prev("ctl", ctl); p_nrdy = h.prev("nrdy", bv1(z3.Not(ready))); p_wdata = h.prev("wdata", V(a.wdata))
    h.assume(z3.Implies(b(p_nrdy), ctl == p_ctl), "AHB master holds the address-phase signals of the next transfer while hready is low")
    busy = h.ghost("busy", 1)                      # a transfer is in its data phase
    gadr = h.ghost("gadr", AW); gsize = h.ghost("gsize", 3); gwr = h.ghost("gwr", 1)
    accept = z3.And(ready, b(V(a.sel)), V(a.trans) == K(2, 2), ule(V(a.size), SH))                       # NONSEQ address phase sampled with hready high
    h.assume(z3.Implies(z3.And(b(p_nrdy), b(busy)), V(a.wdata) == p_wdata), "AHB master holds hwdata during the data phase while hready is low")
    wb_req = z3.And(b(V(w.cyc)), b(V(w.stb))); wb_ack = z3.And(wb_req, b(V(w.ack)))
    h.ghost_next(busy, z3.If(accept, K(1, 1), z3.If(ready, K(0, 1), busy)))
    for g, sig in ((gadr, a.addr), (gsize, a.size), (gwr, a.write)): h.ghost_next(g, z3.If(accept, V(sig), g))
    acked = h.ghost("acked", 1)                    # the Wishbone cycle of the current transfer has been acknowledged
    h.ghost_next(acked, z3.If(accept, K(0, 1), z3.If(wb_ack, K(1, 1), acked)))
    grd = h.ghost("grd", dw); h.ghost_next(grd, z3.If(wb_ack, V(w.dat_r), grd))
    # byte lanes of the transfer: 2^size bytes at the size-aligned offset inside the bus word
    lanes = K(0, NB)
    for sz in range(SH + 1):
        nbytes = 1 << sz
        off = (z3.Extract(SH - 1, 0, gadr) & K(((1 << SH) - 1) & ~(nbytes - 1), SH)) if SH > 0 else None
        m_ = K((1 << nbytes) - 1, NB) << zx(off, NB) if off is not None else K(1, NB)
        lanes = z3.If(gsize == K(sz, 3), m_, lanes)
    h.ensure("ens.wb.req", z3.Implies(wb_req, z3.And(b(busy), z3.Not(b(acked)), zx(V(w.adr), AW) == z3.LShR(gadr, K(shift, AW)), V(w.we) == gwr, V(w.sel) == lanes,
                                                    z3.Implies(b(gwr), V(w.dat_w) == V(a.wdata)), V(w.cyc) == V(w.stb))))        # one cycle per transfer at the same byte address / lanes
    h.ensure("ens.wb.once", z3.Implies(z3.And(b(busy), b(acked)), z3.Not(wb_req)))
    h.ensure("ens.wait", z3.Implies(z3.And(b(busy), z3.Not(b(acked))), z3.And(z3.Not(ready), wb_req)))                                  # wait states until the Wishbone ack
    h.ensure("ens.done", z3.Implies(z3.And(b(busy), b(acked)), z3.And(ready, z3.Implies(z3.Not(b(gwr)), V(a.rdata) == grd))))             # data phase completes with the acknowledged read data
    h.ensure("ens.idle", z3.Implies(z3.Not(b(busy)), z3.And(ready, z3.Not(wb_req), z3.Not(b(V(a.resp))))))                               # IDLE/BUSY/unselected: zero-wait OKAY, no bus access
    h.ensure_seq("ens.wb.stable", lambda at: z3.Implies(at(z3.And(wb_req, z3.Not(b(V(w.ack)))), 0), z3.And(at(wb_req, 1), at(cat(V(w.adr), V(w.we), V(w.sel)), 1) == at(cat(V(w.adr), V(w.we), V(w.sel)), 0))))
    h.respond("resp.done", b(V(w.ack)), ready, 2)
    # findings
    seq_beat = z3.And(ready, b(V(a.sel)), V(a.trans) == K(3, 2), ule(V(a.size), SH))
    p_seq = h.prev("seqbeat", bv1(seq_beat))
    h.finding("finding.seq-dropped", z3.Implies(b(p_seq), wb_req), AHB_SEQ)
    gerr = h.ghost("gerr", 1); h.ghost_next(gerr, z3.If(accept, K(0, 1), z3.If(z3.And(wb_ack, b(V(w.err))), K(1, 1), gerr)))
    h.finding("finding.err-response", z3.Implies(z3.And(b(busy), b(acked), b(gerr)), b(V(a.resp))), AHB_ERR)
    try:
        st, enc = d.bridge.fsm.state, d.bridge.fsm.encoding
        h.hint("data", eqc(V(st), enc["DATA-PHASE"]) == z3.And(b(busy), z3.Not(b(acked))))
        h.hint("regs", z3.Implies(b(busy), z3.And(zx(V(w.adr), AW) == z3.LShR(gadr, K(shift, AW)), V(w.we) == gwr, V(w.sel) == lanes)))
        h.hint("rdata", z3.Implies(z3.And(b(busy), b(acked)), V(a.rdata) == grd))
        h.hint("size", z3.Implies(b(busy), ule(gsize, SH)))
    except (AttributeError, KeyError, TypeError): pass
    h.use_auto = True
    h.cover("cover.read", z3.And(b(busy), b(acked), z3.Not(b(gwr))), depth=4)
    h.cover("cover.write8", z3.And(wb_ack, b(gwr), gsize == K(0, 3)), depth=4)
    h.bmc_depth = 8
    h.functions = ["litex.soc.interconnect.ahb.AHB2Wishbone.__init__"]
    return h

_cases_axi = cases
def cases(tier):
    return _cases_axi(tier) + [Case("AHB2Wishbone(32,word)", c_ahb2wb, 32, "word"), Case("AHB2Wishbone(32,byte)", c_ahb2wb, 32, "byte"), Case("AHB2Wishbone(64,word)", c_ahb2wb, 64, "word")]

# ------------------------------------------------------------------------------------------- AXI2Wishbone / Wishbone2AXI (compositions)
from litex.soc.interconnect.axi import AXI2Wishbone, Wishbone2AXI, AXILite2Wishbone, Wishbone2AXILite

def _tie(top, src_ep_or_rec, dst, names):
    for n in names: top.comb += getattr(dst, n).eq(getattr(src_ep_or_rec, n))

def c_compose(kind, base=0x400, addressing="word"):
    """AXI2Wishbone / Wishbone2AXI are compositions of two bridges that are under contract; the real class is proved cycle-equivalent to the
    explicit composition of those two real bridges through one AXI-Lite interface with the same base address (miter on common inputs)."""
    AW, DW = 16, 32
    mk_axi = lambda: AXIInterface(data_width=DW, address_width=AW, id_width=2)
    mk_wb = lambda: _wb.Interface(data_width=DW, address_width=AW, addressing=addressing)
    ai, as_, wi, ws = mk_axi(), mk_axi(), mk_wb(), mk_wb()
    m2s_ax = lambda ep: [s_ for s_ in [ep.valid, ep.first, ep.last] + pay(ep)]
    class Top(LiteXModule):
        def __init__(self):
            axl = AXILiteInterface(data_width=DW, address_width=AW)
            if kind == "axi2wb":
                self.impl = AXI2Wishbone(ai, wi, base)
                self.spec_a = AXI2AXILite(as_, axl); self.spec_b = AXILite2Wishbone(axl, ws, base)
            else:
                self.impl = Wishbone2AXI(wi, ai, base)
                self.spec_a = Wishbone2AXILite(ws, axl, base); self.spec_b = AXILite2AXI(axl, as_)
    d = mk(Top)
    if kind == "axi2wb":
        ins = []
        for ch in ("aw", "w", "ar"): ins += m2s_ax(getattr(ai, ch))
        ins += [ai.b.ready, ai.r.ready, wi.ack, wi.dat_r, wi.err]
        tie = [(getattr(as_, ch), getattr(ai, ch), None) for ch in ("aw", "w", "ar")]
        outs = [(ai.aw.ready, as_.aw.ready), (ai.w.ready, as_.w.ready), (ai.ar.ready, as_.ar.ready)]
        for ch in ("b", "r"):
            e1, e2 = getattr(ai, ch), getattr(as_, ch)
            outs += [(e1.valid, e2.valid), (e1.last, e2.last)] + list(zip(pay(e1), pay(e2)))
        outs += [(getattr(wi, n), getattr(ws, n)) for n in ("cyc", "stb", "we", "adr", "sel", "dat_w", "cti", "bte")]
        same_in = [(as_.b.ready, ai.b.ready), (as_.r.ready, ai.r.ready), (ws.ack, wi.ack), (ws.dat_r, wi.dat_r), (ws.err, wi.err)]
        for ch in ("aw", "w", "ar"): same_in += list(zip(m2s_ax(getattr(as_, ch)), m2s_ax(getattr(ai, ch))))
    else:
        ins = [getattr(wi, n) for n in ("cyc", "stb", "we", "adr", "sel", "dat_w", "cti", "bte")]
        for ch in ("b", "r"): ins += m2s_ax(getattr(ai, ch))
        ins += [ai.aw.ready, ai.w.ready, ai.ar.ready]
        outs = [(getattr(wi, n), getattr(ws, n)) for n in ("ack", "dat_r", "err")] + [(ai.b.ready, as_.b.ready), (ai.r.ready, as_.r.ready)]
        for ch in ("aw", "w", "ar"):
            e1, e2 = getattr(ai, ch), getattr(as_, ch)
            outs += [(e1.valid, e2.valid), (e1.last, e2.last)] + list(zip(pay(e1), pay(e2)))
        same_in = [(getattr(ws, n), getattr(wi, n)) for n in ("cyc", "stb", "we", "adr", "sel", "dat_w", "cti", "bte")] + [(as_.aw.ready, ai.aw.ready), (as_.w.ready, ai.w.ready), (as_.ar.ready, ai.ar.ready)]
        for ch in ("b", "r"): same_in += list(zip(m2s_ax(getattr(as_, ch)), m2s_ax(getattr(ai, ch))))
    ins_all = ins + [s_ for s_, _ in same_in]
    h = HwCheck(f"{'AXI2Wishbone' if kind == 'axi2wb' else 'Wishbone2AXI'}==composition(base={base:#x},{addressing})", d, ins_all)
    V = h.v
    for s_, i_ in same_in: h.assume(V(s_) == V(i_), None)
    h.assumption_notes.append("miter: the explicit composition receives the same inputs as the real class")
    # registers of the two copies correspond one to one (same constructors, same order)
    from vf.fhdl2smt import signame
    groups = {}
    for r in h.ts.state: groups.setdefault((signame(r).split("#")[0], r.nbits), []).append(r)
    for (nm, nb_), rs in groups.items():
        if len(rs) % 2: continue
        for i in range(len(rs) // 2): h.hint(f"reg.{nm}:{nb_}.{i}", V(rs[i]) == V(rs[i + len(rs) // 2]))   # k-th register of that name in the real class == k-th in the composition
    for i, (o1, o2) in enumerate(outs):
        if o1 in h.ts.var and o2 in h.ts.var: h.ensure(f"ens.equal.{i}.{o1.backtrace[-1][0] if o1.backtrace else i}", V(o1) == V(o2))
    h.use_auto = False
    act = (z3.And(b(V(wi.cyc)), b(V(wi.stb)), b(V(wi.ack)))) if kind == "axi2wb" else z3.And(b(V(wi.ack)))
    h.cover("cover.access", act, depth=8)
    h.functions = [f"litex.soc.interconnect.axi.axi_full_to_wishbone.{'AXI2Wishbone' if kind == 'axi2wb' else 'Wishbone2AXI'}.__init__"]
    h.cosim_cycles = 12
    return h

_cases_ahb = cases
def cases(tier):
    return _cases_ahb(tier) + [Case("AXI2Wishbone(composition)", c_compose, "axi2wb"), Case("Wishbone2AXI(composition)", c_compose, "wb2axi"),
                               Case("AXI2Wishbone(composition,byte)", c_compose, "axi2wb", 0x0, "byte")]
ASSUMPTIONS += ["AXI2Wishbone / Wishbone2AXI: proved cycle-equivalent to the composition of the two contracted bridges; the interface conditions between them are the contracts' own clauses "
                "(AXILite2Wishbone: aw/w consumed together, one outstanding read - ens.consume/ens.serial; AXI2AXILite: slave-side valids held - ens.stable.*)"]
