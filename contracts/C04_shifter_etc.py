"""C04 twin of C03_shifter_etc.py: the hold-until-ready and progress clauses of PipelinedActor / Shifter / BufferizeEndpoints / Pipeline."""
from vf.core import Case
from . import C03_shifter_etc as X
from .streamlib import select

def _c(fn, *a, **k): return select(fn(*a, **k), "C04")

def cases(tier):
    cs = [("PipelinedActor(0)", X.c_pipelined, 0), ("PipelinedActor(1)", X.c_pipelined, 1), ("PipelinedActor(2)", X.c_pipelined, 2), ("PipelinedActor(3,param)", X.c_pipelined, 3, X.LAYOUT_P),
          ("Shifter(4)", X.c_shifter, 4), ("Shifter(3)", X.c_shifter, 3),
          ("BufferizeEndpoints(sink)", X.c_bufferize, "sink", True, False), ("BufferizeEndpoints(source,pr)", X.c_bufferize, "source", False, True),
          ("BufferizeEndpoints(both,pv+pr)", X.c_bufferize, "both", True, True), ("Pipeline(Endpoint,Buffer,Endpoint)", X.c_pipeline_ep)]
    return [Case("ext." + c[0], _c, *c[1:]) for c in cs]
