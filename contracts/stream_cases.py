"""Contract builders for stream.py elements (shared by C03 and C04; obligations are filtered per property)."""
import z3
from .streamlib import *

LAYOUT = [("data", 4)]
LAYOUT_P = ([("data", 4)], [("p", 3)])    # payload + param

def _ep(layout):
    if isinstance(layout, tuple): return stream.EndpointDescription(layout[0], layout[1])
    return layout

def c_pipevalid(layout=LAYOUT):
    d = mk(stream.PipeValid, _ep(layout))
    def hints(h, qlen, q):
        h.hint("valid=qlen", zx(h.v(d.source.valid), qlen.size()) == qlen)
        h.hint("reg=q0", z3.Implies(qlen != 0, tok(h, d.source) == q[0]))
    return fifo_like("PipeValid", d, 1, hints)

def c_pipeready(layout=LAYOUT):
    d = mk(stream.PipeReady, _ep(layout)); valid, sd = L(d, "valid"), L(d, "sink_d")
    def hints(h, qlen, q):
        if valid is None or sd is None: return
        h.hint("valid=qlen", zx(h.v(valid), qlen.size()) == qlen)
        h.hint("sd.valid", z3.Implies(qlen != 0, b(h.v(sd.valid))))
        h.hint("sd=q0", z3.Implies(qlen != 0, tok(h, sd) == q[0]))
    return fifo_like("PipeReady", d, 1, hints, bypass=True)

def c_buffer(pv, pr, layout=LAYOUT):
    d = mk(stream.Buffer, _ep(layout), pipe_valid=pv, pipe_ready=pr)
    def hints(h, qlen, q):
        LW = qlen.size()
        try:
            if pv and not pr:
                s = d.pipe_valid.source
                h.hint("v", zx(h.v(s.valid), LW) == qlen); h.hint("d", z3.Implies(qlen != 0, tok(h, s) == q[0]))
            if pr and not pv:
                valid, sd = L(d.pipe_ready, "valid"), L(d.pipe_ready, "sink_d")
                h.hint("v", zx(h.v(valid), LW) == qlen); h.hint("sv", z3.Implies(qlen != 0, b(h.v(sd.valid)))); h.hint("d", z3.Implies(qlen != 0, tok(h, sd) == q[0]))
            if pv and pr:
                s = d.pipe_valid.source; valid, sd = L(d.pipe_ready, "valid"), L(d.pipe_ready, "sink_d")
                h.hint("len", zx(h.v(s.valid), LW) + zx(h.v(valid), LW) == qlen)
                h.hint("sv", z3.Implies(b(h.v(valid)), b(h.v(sd.valid))))
                h.hint("d0r", z3.Implies(b(h.v(valid)), tok(h, sd) == q[0]))
                h.hint("d0v", z3.Implies(z3.And(z3.Not(b(h.v(valid))), b(h.v(s.valid))), tok(h, s) == q[0]))
                h.hint("d1v", z3.Implies(z3.And(b(h.v(valid)), b(h.v(s.valid))), tok(h, s) == q[1]))
        except (AttributeError, TypeError):
            pass   # renamed internals: hints unavailable, generated candidates remain
    cap = int(pv) + int(pr)
    if cap == 0:
        return c_comb_identity(f"Buffer(pv=False,pr=False)", d)
    return fifo_like(f"Buffer(pv={pv},pr={pr})", d, cap, hints, bypass=pr and not pv)

def c_comb_identity(name, d, sink=None, source=None, xform=None):
    """same-cycle pass-through element: source == f(sink), ready passes back"""
    sink = sink or d.sink; source = source or d.source
    h = HwCheck(name, d, ep_inputs(sink, source))
    fx = xform or (lambda t: t)
    h.ensure("ens.valid", h.v(source.valid) == h.v(sink.valid))
    h.ensure("ens.token", tok(h, source) == fx(tok(h, sink)))
    h.ensure("ens.ready", h.v(sink.ready) == h.v(source.ready))
    producer_holds(h, sink); hold_clause(h, source)
    h.respond("resp.move", z3.And(b(h.v(sink.valid)), b(h.v(source.ready))), z3.And(fire(h, sink), fire(h, source)), 1)
    h.cover("cover.deliver", fire(h, source), depth=2)
    h.functions = [f"litex.soc.interconnect.stream.{type(d).__name__}.__init__"]
    return h

def c_syncfifo(depth, buffered=False, layout=LAYOUT):
    d = mk(stream.SyncFIFO, _ep(layout), depth, buffered)
    if depth == 0:
        return c_comb_identity("SyncFIFO(0)", d)
    if depth == 1:
        # depth 1 is a Buffer (PipeValid + PipeReady disabled)
        return fifo_like("SyncFIFO(1)", d, 1, None)
    f = d.fifo if not buffered else d.fifo.fifo
    lf = locals_of(f); produce, consume, storage = lf.get("produce"), lf.get("consume"), lf.get("storage")
    def hints(h, qlen, q):
        if produce is None or consume is None or storage is None or storage not in h.ts.mems: return
        LW = qlen.size(); mem = h.ts.mems[storage]
        def word(i):     # stored word at (consume + i) mod depth
            idx = zx(h.v(consume), 8) + K(i, 8)
            idx = z3.If(z3.UGE(idx, K(depth, 8)), idx - K(depth, 8), idx)
            r = h.v(mem[depth - 1])
            for j in reversed(range(depth - 1)): r = z3.If(idx == K(j, 8), h.v(mem[j]), r)
            return r
        def unpack(w):   # fifo word layout (low->high): payload, param, first, last ; token order: first,last,payload,param
            n = w.size(); W = tok(h, d.sink).size()
            # record order in _FIFOWrapper: payload fields, param fields, first, last (low -> high)
            pl = sum(s.nbits for s, _ in d.sink.payload.iter_flat()); pa = sum(s.nbits for s, _ in d.sink.param.iter_flat())
            parts = []; off = 0
            pay = []
            for s, _ in d.sink.payload.iter_flat(): pay.append(z3.Extract(off + s.nbits - 1, off, w)); off += s.nbits
            par = []
            for s, _ in d.sink.param.iter_flat(): par.append(z3.Extract(off + s.nbits - 1, off, w)); off += s.nbits
            first = z3.Extract(off, off, w); last = z3.Extract(off + 1, off + 1, w)
            return cat(first, last, *pay, *par)
        if not buffered:
            h.hint("level", zx(h.v(f.level), LW) == qlen)
            h.hint("ptr", z3.URem(zx(h.v(consume), 8) + zx(qlen, 8), K(depth, 8)) == zx(h.v(produce), 8))
            h.hint("cons<depth", ult(h.v(consume), depth)); h.hint("prod<depth", ult(h.v(produce), depth))
            for i in range(depth): h.hint(f"slot{i}", z3.Implies(ugt(qlen, i), unpack(word(i)) == q[i]))
        else:
            # buffered: one extra output register stage (readable flag + dout register)
            inner = f; rd = d.fifo.readable if hasattr(d.fifo, "readable") else None
            LWx = 8
            if rd is not None:
                h.hint("level", zx(h.v(inner.level), LWx) + zx(h.v(rd), LWx) == zx(qlen, LWx))
                h.hint("ptr", z3.URem(zx(h.v(consume), 8) + zx(h.v(inner.level), 8), K(depth, 8)) == zx(h.v(produce), 8))
                h.hint("cons<depth", ult(h.v(consume), depth)); h.hint("prod<depth", ult(h.v(produce), depth))
                h.hint("lvl<=depth", ule(h.v(inner.level), depth))
                h.hint("out=q0", z3.Implies(b(h.v(rd)), tok(h, d.source) == q[0]))
                for i in range(depth):
                    h.hint(f"slotA{i}", z3.Implies(z3.And(b(h.v(rd)), ugt(h.v(inner.level), i)), unpack(word(i)) == q[i + 1] if i + 1 < len(q) else z3.BoolVal(True)))
                    h.hint(f"slotB{i}", z3.Implies(z3.And(z3.Not(b(h.v(rd))), ugt(h.v(inner.level), i)), unpack(word(i)) == q[i]))
    cap = depth + (1 if buffered else 0)
    h = fifo_like(f"SyncFIFO({depth},buffered={buffered})", d, cap, hints, latency=1 if buffered else 0)
    h.functions += ["litex.soc.interconnect.stream._FIFOWrapper.__init__", "migen.genlib.fifo.SyncFIFO (flattened)"]
    return h

# ---------------------------------------------------------------------------------------------------
# width converters
def c_down(ratio, wt, reverse):
    d = mk(stream._DownConverter, wt * ratio, wt, ratio, reverse); sink, source = d.sink, d.source
    h = HwCheck(f"_DownConverter({wt*ratio}->{wt},rev={reverse})", d, ep_inputs(sink, source))
    GW = max(2, ratio.bit_length())
    g = h.ghost("idx", GW)
    in_fire, out_fire = fire(h, sink), fire(h, source)
    lastc = g == K(ratio - 1, GW)
    h.ghost_next(g, z3.If(out_fire, z3.If(lastc, K(0, GW), g + 1), g))
    producer_holds(h, sink)
    h.hint("idx<ratio", ult(g, ratio))
    mux = L(d, "mux")
    if mux is not None and mux in h.ts.var: h.hint("mux=idx", zx(h.v(mux), GW) == g)
    def chunk(i):
        n = ratio - 1 - i if reverse else i
        return z3.Extract(wt * (n + 1) - 1, wt * n, h.v(sink.data))
    spec_data = chunk(ratio - 1)
    for i in reversed(range(ratio - 1)): spec_data = z3.If(g == K(i, GW), chunk(i), spec_data)
    h.ensure("ens.valid", b(h.v(source.valid)) == b(h.v(sink.valid)))
    h.ensure("ens.data",  z3.Implies(b(h.v(source.valid)), h.v(source.data) == spec_data))
    h.ensure("ens.first", z3.Implies(b(h.v(source.valid)), b(h.v(source.first)) == z3.And(b(h.v(sink.first)), g == K(0, GW))))
    h.ensure("ens.last",  z3.Implies(b(h.v(source.valid)), b(h.v(source.last)) == z3.And(b(h.v(sink.last)), lastc)))
    h.ensure("ens.consume", in_fire == z3.And(out_fire, lastc))          # wide token consumed exactly with its last chunk
    h.ensure("ens.vtc", z3.Implies(b(h.v(source.valid)), b(h.v(source.valid_token_count)) == lastc))
    hold_clause(h, source)
    h.respond("resp.move", z3.And(b(h.v(sink.valid)), b(h.v(source.ready))), out_fire, 1)
    h.cover("cover.consume", in_fire, depth=ratio + 2)
    h.use_auto = True
    h.functions = ["litex.soc.interconnect.stream._DownConverter.__init__"]
    return h

def up_ghost(h, sink, source, ratio, wf, sink_data, in_fire, out_fire):
    """ghost of an up-converter: accumulating word (acc_*) and completed word waiting at the source (w_*)"""
    GW = max(2, (ratio + 1).bit_length())
    acc_n = h.ghost("acc_n", GW); acc = [h.ghost(f"acc{k}", wf) for k in range(ratio)]
    acc_f = h.ghost("acc_first", 1); acc_l = h.ghost("acc_last", 1)
    w_valid = h.ghost("w_valid", 1); w_cnt = h.ghost("w_cnt", GW); w = [h.ghost(f"w{k}", wf) for k in range(ratio)]
    w_f = h.ghost("w_first", 1); w_l = h.ghost("w_last", 1)
    complete = z3.And(in_fire, z3.Or(acc_n == K(ratio - 1, GW), b(h.v(sink.last))))
    h.ghost_next(acc_n, z3.If(in_fire, z3.If(complete, K(0, GW), acc_n + 1), acc_n))
    for k in range(ratio): h.ghost_next(acc[k], z3.If(z3.And(in_fire, acc_n == K(k, GW)), sink_data, acc[k]))
    first_now = z3.If(acc_n == K(0, GW), h.v(sink.first), acc_f | h.v(sink.first))
    last_now  = z3.If(acc_n == K(0, GW), h.v(sink.last),  acc_l | h.v(sink.last))
    h.ghost_next(acc_f, z3.If(in_fire, first_now, acc_f)); h.ghost_next(acc_l, z3.If(in_fire, last_now, acc_l))
    h.ghost_next(w_valid, z3.If(complete, K(1, 1), z3.If(out_fire, K(0, 1), w_valid)))
    h.ghost_next(w_cnt, z3.If(complete, acc_n + 1, w_cnt))
    for k in range(ratio): h.ghost_next(w[k], z3.If(complete, z3.If(acc_n == K(k, GW), sink_data, acc[k]), w[k]))
    h.ghost_next(w_f, z3.If(complete, first_now, w_f)); h.ghost_next(w_l, z3.If(complete, last_now, w_l))
    return GW, acc_n, acc, acc_f, acc_l, w_valid, w_cnt, w, w_f, w_l, complete

def c_up(ratio, wf, reverse):
    d = mk(stream._UpConverter, wf, wf * ratio, ratio, reverse); sink, source = d.sink, d.source
    h = HwCheck(f"_UpConverter({wf}->{wf*ratio},rev={reverse})", d, ep_inputs(sink, source))
    in_fire, out_fire = fire(h, sink), fire(h, source)
    GW, acc_n, acc, acc_f, acc_l, w_valid, w_cnt, w, w_f, w_l, complete = up_ghost(h, sink, source, ratio, wf, h.v(sink.data), in_fire, out_fire)
    producer_holds(h, sink)
    def lane(k):
        n = ratio - 1 - k if reverse else k
        return z3.Extract(wf * (n + 1) - 1, wf * n, h.v(source.data))
    dm, st = L(d, "demux"), L(d, "strobe_all")
    if dm is not None and st is not None and dm in h.ts.var and st in h.ts.var:
        h.hint("demux=acc_n", zx(h.v(dm), GW) == acc_n); h.hint("strobe=w_valid", h.v(st) == w_valid)
    h.hint("strobe->acc0", z3.Implies(b(w_valid), acc_n == K(0, GW)))
    h.hint("acc_n<ratio", ult(acc_n, ratio))
    h.hint("wcnt", z3.Implies(b(w_valid), z3.And(uge(w_cnt, 1), ule(w_cnt, ratio), zx(h.v(source.valid_token_count), GW) == w_cnt)))
    h.hint("wfl", z3.Implies(b(w_valid), z3.And(h.v(source.first) == w_f, h.v(source.last) == w_l)))
    h.hint("accfl", z3.Implies(z3.And(z3.Not(b(w_valid)), acc_n != K(0, GW)), z3.And(h.v(source.first) == acc_f, h.v(source.last) == acc_l)))
    h.hint("idlefl", z3.Implies(z3.And(z3.Not(b(w_valid)), acc_n == K(0, GW)), z3.And(h.v(source.first) == K(0, 1), h.v(source.last) == K(0, 1))))
    for k in range(ratio):
        h.hint(f"lane{k}.acc", z3.Implies(z3.And(z3.Not(b(w_valid)), ugt(acc_n, k)), lane(k) == acc[k]))
        h.hint(f"lane{k}.w",   z3.Implies(z3.And(b(w_valid), ugt(w_cnt, k)), lane(k) == w[k]))
        h.view(f"acc{k}", acc[k]); h.view(f"w{k}", w[k])
    h.ensure("ens.head", z3.Implies(b(h.v(source.valid)), z3.And(b(w_valid), zx(h.v(source.valid_token_count), GW) == w_cnt,
                         h.v(source.first) == w_f, h.v(source.last) == w_l, *[z3.Implies(ugt(w_cnt, k), lane(k) == w[k]) for k in range(ratio)])))
    h.ensure("ens.cap", z3.Implies(complete, z3.Or(z3.Not(b(w_valid)), out_fire)))
    h.ensure("ens.present", b(w_valid) == b(h.v(source.valid)))
    hold_clause(h, source)
    h.respond("resp.move", z3.And(b(h.v(sink.valid)), b(h.v(source.ready))), z3.Or(in_fire, out_fire), 1)
    h.cover("cover.deliver", out_fire, depth=ratio + 3)
    h.cover("cover.partial", z3.And(out_fire, w_cnt == K(1, GW)), depth=4)
    h.use_auto = True
    h.functions = ["litex.soc.interconnect.stream._UpConverter.__init__"]
    return h

# ---------------------------------------------------------------------------------------------------
# combinational routing
def c_gate(sink_close=False):
    d = mk(stream.Gate, LAYOUT, sink_close) if sink_close else mk(stream.Gate, LAYOUT)
    h = HwCheck(f"Gate(sink_ready_when_disabled={sink_close})", d, ep_inputs(d.sink, d.source) + [d.enable])
    en = b(h.v(d.enable))
    h.ensure("ens.pass", z3.Implies(en, z3.And(h.v(d.source.valid) == h.v(d.sink.valid), tok(h, d.source) == tok(h, d.sink), h.v(d.sink.ready) == h.v(d.source.ready))))
    h.ensure("ens.block", z3.Implies(z3.Not(en), z3.Not(b(h.v(d.source.valid)))))
    if not sink_close: h.ensure("ens.block.ready", z3.Implies(z3.Not(en), z3.Not(b(h.v(d.sink.ready)))))
    else: h.ensure("ens.drain.ready", z3.Implies(z3.Not(en), b(h.v(d.sink.ready))))                  # sink_ready_when_disabled: tokens offered while disabled are drained, not forwarded
    producer_holds(h, d.sink)
    p_en = h.prev("en", h.v(d.enable)); p_stall = h.prev("stall", bv1(z3.And(b(h.v(d.source.valid)), z3.Not(b(h.v(d.source.ready))))))
    h.assume(z3.Implies(b(p_stall), h.v(d.enable) == p_en), "configuration input (Gate.enable) held while an offer is pending on the port it steers")
    hold_clause(h, d.source)
    h.respond("resp.move", z3.And(b(h.v(d.sink.valid)), b(h.v(d.source.ready)), en), z3.And(fire(h, d.sink), fire(h, d.source)), 1)
    h.cover("cover.deliver", fire(h, d.source), depth=2)
    h.functions = ["litex.soc.interconnect.stream.Gate.__init__"]
    return h

def c_mux(n=3):
    d = mk(stream.Multiplexer, LAYOUT, n); sinks = [getattr(d, f"sink{i}") for i in range(n)]
    ins = [d.sel, d.source.ready]
    for s_ in sinks: ins += [s_.valid] + tok_sigs(s_)
    h = HwCheck(f"Multiplexer({n})", d, ins)
    for i, s_ in enumerate(sinks):
        sel = eqc(h.v(d.sel), i)
        h.ensure(f"ens.sel{i}", z3.Implies(sel, z3.And(h.v(d.source.valid) == h.v(s_.valid), tok(h, d.source) == tok(h, s_), h.v(s_.ready) == h.v(d.source.ready))))
        h.ensure(f"ens.unsel{i}", z3.Implies(z3.Not(sel), z3.Not(b(h.v(s_.ready)))))
        producer_holds(h, s_, name=str(i))
    if (1 << d.sel.nbits) > n: h.ensure("ens.nosel", z3.Implies(uge(h.v(d.sel), n), z3.Not(b(h.v(d.source.valid)))))
    p_sel = h.prev("sel", h.v(d.sel)); p_stall = h.prev("stall", bv1(z3.And(b(h.v(d.source.valid)), z3.Not(b(h.v(d.source.ready))))))
    h.assume(z3.Implies(b(p_stall), h.v(d.sel) == p_sel), "configuration input (Multiplexer.sel) held while an offer is pending on the port it steers")
    hold_clause(h, d.source)
    h.cover("cover.deliver", fire(h, d.source), depth=2)
    h.functions = ["litex.soc.interconnect.stream.Multiplexer.__init__"]
    return h

def c_demux(n=3):
    d = mk(stream.Demultiplexer, LAYOUT, n); sources = [getattr(d, f"source{i}") for i in range(n)]
    ins = [d.sel, d.sink.valid] + tok_sigs(d.sink) + [s_.ready for s_ in sources]
    h = HwCheck(f"Demultiplexer({n})", d, ins)
    producer_holds(h, d.sink)
    anystall = z3.Or(*[z3.And(b(h.v(s_.valid)), z3.Not(b(h.v(s_.ready)))) for s_ in sources])
    p_sel = h.prev("sel", h.v(d.sel)); p_stall = h.prev("stall", bv1(anystall))
    h.assume(z3.Implies(b(p_stall), h.v(d.sel) == p_sel), "configuration input (Demultiplexer.sel) held while an offer is pending on the port it steers")
    for i, s_ in enumerate(sources):
        sel = eqc(h.v(d.sel), i)
        h.ensure(f"ens.sel{i}", z3.Implies(sel, z3.And(h.v(s_.valid) == h.v(d.sink.valid), z3.Implies(b(h.v(s_.valid)), tok(h, s_) == tok(h, d.sink)), h.v(d.sink.ready) == h.v(s_.ready))))
        h.ensure(f"ens.unsel{i}", z3.Implies(z3.Not(sel), z3.Not(b(h.v(s_.valid)))))
        hold_clause(h, s_, name=f"ens.hold{i}")
    # nothing is lost or duplicated whatever `sel` holds (also a value that selects no source): a sink handshake is exactly one source handshake
    h.ensure("ens.no-loss", z3.Implies(fire(h, d.sink), z3.Or(*[fire(h, s_) for s_ in sources])))
    h.ensure("ens.no-dup", z3.And(z3.AtMost(*[b(h.v(s_.valid)) for s_ in sources], 1), *[z3.Implies(fire(h, s_), fire(h, d.sink)) for s_ in sources]))
    h.cover("cover.deliver", fire(h, sources[n - 1]), depth=2)
    h.functions = ["litex.soc.interconnect.stream.Demultiplexer.__init__"]
    return h

def c_cdc_same(cd, buffered):
    """ClockDomainCrossing with cd_from == cd_to (no crossing) in a domain that is not called 'sys': an ordinary stream element of THAT domain - every register
    it contains is clocked by cd (otherwise, seen from the stream's own clock, a stalled token is not held and tokens are lost or duplicated).  The behaviour
    of the same construction is proved in the sys domain (C05: ClockDomainCrossing(sys->sys[,buffered])); here the structural clause that makes it carry over."""
    from vf.fhdl2smt import TS
    d = mk(stream.ClockDomainCrossing, [("data", 4)], cd, cd, 8, buffered)
    ts = TS(d, inputs=ep_inputs(d.sink, d.source))
    other = sorted(k for k, nx in ts.next.items() if k != cd and nx); own = len(ts.next.get(cd, {}))
    out = [res("ens.hold.clocked-only-by-its-own-domain", "ensures", PROVED if not other else VIOLATED, 0, "executed (elaboration)", replayed=True,
               witness=dict(construction=f"ClockDomainCrossing(layout, cd_from={cd!r}, cd_to={cd!r}, buffered={buffered})", registers_clocked_by=other),
               info="" if not other else f"registers in clock domain(s) {other}: seen from the stream's clock {cd!r} a stalled token is not held"),
           res("ens.same-domain-structure", "ensures", PROVED if (own > 0) == bool(buffered) and not other else VIOLATED, 0, "executed (elaboration)", info=f"{own} registers in {cd!r}; buffered={buffered}")]
    return dict(results=out, functions=["litex.soc.interconnect.stream.ClockDomainCrossing.__init__ (cd_from == cd_to)"], samples=[dict(construction=f"ClockDomainCrossing({cd}->{cd},buffered={buffered})")])

def c_cast(lf=(("a", 3), ("b", 5)), lt=(("x", 6), ("y", 2)), reverse_from=False, reverse_to=False):
    lf, lt = [tuple(x) for x in lf], [tuple(x) for x in lt]
    d = mk(stream.Cast, lf, lt, reverse_from, reverse_to)
    # documented function: raw bits reinterpretation Cat(to fields) == Cat(from fields), each field list taken in layout order (first field in
    # the low bits) or, with reverse_from / reverse_to, in reversed order (last field in the low bits)
    h = HwCheck(f"Cast({''.join(f'{n}{w}' for n, w in lf)}->{''.join(f'{n}{w}' for n, w in lt)}{',reverse_from' if reverse_from else ''}{',reverse_to' if reverse_to else ''})", d, ep_inputs(d.sink, d.source))
    fr = [h.v(getattr(d.sink, n)) for n, _ in lf]; to = [h.v(getattr(d.source, n)) for n, _ in lt]
    if reverse_from: fr = fr[::-1]
    if reverse_to: to = to[::-1]
    raw_in = cat(*fr[::-1]); raw_out = cat(*to[::-1])                 # cat(): most significant first
    h.ensure("ens.valid", h.v(d.source.valid) == h.v(d.sink.valid))
    h.ensure("ens.bits", raw_out == raw_in)
    h.ensure("ens.flags", z3.And(h.v(d.source.first) == h.v(d.sink.first), h.v(d.source.last) == h.v(d.sink.last)))
    h.ensure("ens.ready", h.v(d.sink.ready) == h.v(d.source.ready))
    producer_holds(h, d.sink); hold_clause(h, d.source)
    h.cover("cover.deliver", fire(h, d.source), depth=2)
    h.functions = ["litex.soc.interconnect.stream.Cast.__init__", "litex.soc.interconnect.stream.CombinatorialActor.build_binary_control"]
    return h

# ---------------------------------------------------------------------------------------------------
def c_gearbox(i_dw, o_dw, msb_first):
    d = mk(stream.Gearbox, i_dw, o_dw, msb_first); lc = locals_of(d)
    sink, source = d.sink, d.source
    h = HwCheck(f"Gearbox({i_dw}->{o_dw},msb_first={msb_first})", d, ep_inputs(sink, source))
    lcm = stream.lcm(i_dw, o_dw)
    if lcm // i_dw < 2: lcm *= 2
    if lcm // o_dw < 2: lcm *= 2
    LW = max(8, (2 * lcm).bit_length() + 1)
    glen = h.ghost("glen", LW); gq = h.ghost("gq", lcm)
    in_fire, out_fire = fire(h, sink), fire(h, source)
    def rev(bv):
        n = bv.size(); return z3.Concat(*[z3.Extract(i, i, bv) for i in range(n)]) if n > 1 else bv
    din  = h.v(sink.data) if msb_first else rev(h.v(sink.data))
    dout = h.v(source.data) if msb_first else rev(h.v(source.data))
    # bit-queue ghost: valid bits are the top glen bits of gq; pop o_dw from the top, then push i_dw below the remaining bits
    plen = z3.If(out_fire, glen - K(o_dw, LW), glen)
    pq   = z3.If(out_fire, gq << o_dw, gq)
    pushed = pq | z3.LShR(z3.Concat(din, z3.BitVecVal(0, lcm - i_dw)), zx(plen, lcm) if LW <= lcm else z3.Extract(lcm - 1, 0, plen))
    h.ghost_next(glen, z3.If(in_fire, plen + K(i_dw, LW), plen)); h.ghost_next(gq, z3.If(in_fire, pushed, pq))
    producer_holds(h, sink)
    level, ic, oc, sr = lc.get("level"), lc.get("i_count"), lc.get("o_count"), lc.get("shift_register")
    def rotl(x, k):
        k %= lcm
        return x if k == 0 else z3.Concat(z3.Extract(lcm - 1 - k, 0, x), z3.Extract(lcm - 1, lcm - k, x))
    def topmask(n):
        ones = z3.BitVecVal((1 << lcm) - 1, lcm)
        nn = zx(n, lcm) if n.size() <= lcm else z3.Extract(lcm - 1, 0, n)
        return ~z3.LShR(ones, nn)
    if all(x is not None and x in h.ts.var for x in (level, ic, oc, sr)):
        X = h.v
        h.hint("level=glen", zx(X(level), LW) == glen)
        h.hint("glen<=lcm", ule(glen, lcm))
        h.hint("ic<n", ult(X(ic), lcm // i_dw)); h.hint("oc<n", ult(X(oc), lcm // o_dw))
        h.hint("occupancy", z3.URem(zx(X(ic), 16) * i_dw + lcm - zx(X(oc), 16) * o_dw, lcm) == z3.URem(zx(glen, 16), lcm))
        rot = rotl(X(sr), 0)
        for k in reversed(range(1, lcm // o_dw)): rot = z3.If(zx(X(oc), 16) == k, rotl(X(sr), k * o_dw), rot)
        h.hint("content", (rot & topmask(glen)) == (gq & topmask(glen)))
    h.hint("gq.clean", (gq & ~topmask(glen)) == 0)
    h.ensure("ens.head", z3.Implies(b(h.v(source.valid)), z3.And(uge(glen, o_dw), dout == z3.Extract(lcm - 1, lcm - o_dw, gq))))
    h.ensure("ens.cap",  z3.Implies(in_fire, ule(plen, lcm - i_dw)))
    h.ensure("ens.present", z3.Implies(uge(glen, o_dw), b(h.v(source.valid))))
    hold_clause(h, source)
    h.respond("resp.move", z3.And(b(h.v(sink.valid)), b(h.v(source.ready))), z3.Or(in_fire, out_fire), 1)
    h.cover("cover.deliver", out_fire, depth=lcm // i_dw + 3)
    h.functions = ["litex.soc.interconnect.stream.Gearbox.__init__", "litex.soc.interconnect.stream.inc_mod", "litex.soc.interconnect.stream.lcm"]
    h.cosim_cycles = 16
    return h

# ---------------------------------------------------------------------------------------------------
def c_converter(nf, nt, reverse=False):
    """Converter (public wrapper): identity / up / down without valid_token_count"""
    d = mk(stream.Converter, nf, nt, reverse)
    if nf == nt:
        return c_comb_identity(f"Converter({nf}->{nt})", d)
    sink, source = d.sink, d.source
    h = HwCheck(f"Converter({nf}->{nt},rev={reverse})", d, ep_inputs(sink, source))
    in_fire, out_fire = fire(h, sink), fire(h, source)
    producer_holds(h, sink)
    if nf > nt:
        ratio = nf // nt; GW = max(2, ratio.bit_length()); g = h.ghost("idx", GW); lastc = g == K(ratio - 1, GW)
        h.ghost_next(g, z3.If(out_fire, z3.If(lastc, K(0, GW), g + 1), g))
        h.hint("idx<ratio", ult(g, ratio))
        def chunk(i):
            n = ratio - 1 - i if reverse else i
            return z3.Extract(nt * (n + 1) - 1, nt * n, h.v(sink.data))
        spec = chunk(ratio - 1)
        for i in reversed(range(ratio - 1)): spec = z3.If(g == K(i, GW), chunk(i), spec)
        h.ensure("ens.valid", h.v(source.valid) == h.v(sink.valid))
        h.ensure("ens.data", z3.Implies(b(h.v(source.valid)), h.v(source.data) == spec))
        h.ensure("ens.flags", z3.Implies(b(h.v(source.valid)), z3.And(b(h.v(source.first)) == z3.And(b(h.v(sink.first)), g == K(0, GW)), b(h.v(source.last)) == z3.And(b(h.v(sink.last)), lastc))))
        h.ensure("ens.consume", in_fire == z3.And(out_fire, lastc))
        h.respond("resp.move", z3.And(b(h.v(sink.valid)), b(h.v(source.ready))), out_fire, 1)
    else:
        ratio = nt // nf
        GW, acc_n, acc, acc_f, acc_l, w_valid, w_cnt, w, w_f, w_l, complete = up_ghost(h, sink, source, ratio, nf, h.v(sink.data), in_fire, out_fire)
        def lane(k):
            n = ratio - 1 - k if reverse else k
            return z3.Extract(nf * (n + 1) - 1, nf * n, h.v(source.data))
        for k in range(ratio): h.view(f"acc{k}", acc[k]); h.view(f"w{k}", w[k])
        h.hint("strobe->acc0", z3.Implies(b(w_valid), acc_n == K(0, GW))); h.hint("acc_n<ratio", ult(acc_n, ratio))
        h.hint("wcnt", z3.Implies(b(w_valid), z3.And(uge(w_cnt, 1), ule(w_cnt, ratio))))
        h.hint("valid", h.v(source.valid) == w_valid)
        h.hint("wfl", z3.Implies(b(w_valid), z3.And(h.v(source.first) == w_f, h.v(source.last) == w_l)))
        h.hint("accfl", z3.Implies(z3.And(z3.Not(b(w_valid)), acc_n != K(0, GW)), z3.And(h.v(source.first) == acc_f, h.v(source.last) == acc_l)))
        h.hint("idlefl", z3.Implies(z3.And(z3.Not(b(w_valid)), acc_n == K(0, GW)), z3.And(h.v(source.first) == K(0, 1), h.v(source.last) == K(0, 1))))
        for k in range(ratio):
            h.hint(f"lane{k}.acc", z3.Implies(z3.And(z3.Not(b(w_valid)), ugt(acc_n, k)), lane(k) == acc[k]))
            h.hint(f"lane{k}.w",   z3.Implies(z3.And(b(w_valid), ugt(w_cnt, k)), lane(k) == w[k]))
        h.ensure("ens.head", z3.Implies(b(h.v(source.valid)), z3.And(b(w_valid), h.v(source.first) == w_f, h.v(source.last) == w_l,
                             *[z3.Implies(ugt(w_cnt, k), lane(k) == w[k]) for k in range(ratio)])))
        h.ensure("ens.cap", z3.Implies(complete, z3.Or(z3.Not(b(w_valid)), out_fire)))
        h.ensure("ens.present", b(w_valid) == b(h.v(source.valid)))
        h.respond("resp.move", z3.And(b(h.v(sink.valid)), b(h.v(source.ready))), z3.Or(in_fire, out_fire), 1)
    hold_clause(h, source)
    h.cover("cover.deliver", out_fire, depth=max(nf, nt) // min(nf, nt) + 3)
    h.use_auto = True
    h.functions = ["litex.soc.interconnect.stream.Converter.__init__", "litex.soc.interconnect.stream._get_converter_ratio"]
    return h

def c_stride(down=True, with_param=False, swap=False):
    """StrideConverter with a two-field payload (field-wise lane map) and optionally a param that must travel with its token;
    swap: the two descriptions list the same fields in a different order (fields are matched by NAME)"""
    pl_w = [("a", 8), ("b", 4)]; pl_n = [("a", 4), ("b", 2)] if not swap else [("b", 2), ("a", 4)]; par = [("p", 3)] if with_param else []
    EP = lambda pl: stream.EndpointDescription(pl, par)
    d = mk(stream.StrideConverter, EP(pl_w), EP(pl_n)) if down else mk(stream.StrideConverter, EP(pl_n), EP(pl_w))
    sink, source = d.sink, d.source
    h = HwCheck(f"StrideConverter({'down' if down else 'up'},2 fields,param={with_param}{',fields in another order' if swap else ''})", d, ep_inputs(sink, source))
    producer_holds(h, sink)
    in_fire, out_fire = fire(h, sink), fire(h, source)
    if down:
        g = h.ghost("idx", 2); lastc = g == K(1, 2)
        h.ghost_next(g, z3.If(out_fire, z3.If(lastc, K(0, 2), g + 1), g))
        h.hint("idx<2", ult(g, 2))
        spec_a = z3.If(g == K(0, 2), z3.Extract(3, 0, h.v(sink.a)), z3.Extract(7, 4, h.v(sink.a)))
        spec_b = z3.If(g == K(0, 2), z3.Extract(1, 0, h.v(sink.b)), z3.Extract(3, 2, h.v(sink.b)))
        h.ensure("ens.fields", z3.Implies(b(h.v(source.valid)), z3.And(h.v(source.a) == spec_a, h.v(source.b) == spec_b)))
        h.ensure("ens.valid", h.v(source.valid) == h.v(sink.valid))
        h.ensure("ens.consume", in_fire == z3.And(out_fire, lastc))
        h.ensure("ens.flags", z3.Implies(b(h.v(source.valid)), z3.And(b(h.v(source.first)) == z3.And(b(h.v(sink.first)), g == K(0, 2)), b(h.v(source.last)) == z3.And(b(h.v(sink.last)), lastc))))
        if with_param: h.ensure("ens.param", z3.Implies(b(h.v(source.valid)), h.v(source.p) == h.v(sink.p)))
        h.respond("resp.move", z3.And(b(h.v(sink.valid)), b(h.v(source.ready))), out_fire, 1)
    else:
        acc_n = h.ghost("acc_n", 2); a0 = h.ghost("a0", 4); b0 = h.ghost("b0", 2); wv = h.ghost("w_valid", 1)
        wa = h.ghost("wa", 8); wb = h.ghost("wb", 4); wn = h.ghost("wn", 2)
        complete = z3.And(in_fire, z3.Or(acc_n == K(1, 2), b(h.v(sink.last))))
        h.ghost_next(acc_n, z3.If(in_fire, z3.If(complete, K(0, 2), acc_n + 1), acc_n))
        h.ghost_next(a0, z3.If(z3.And(in_fire, acc_n == K(0, 2)), h.v(sink.a), a0)); h.ghost_next(b0, z3.If(z3.And(in_fire, acc_n == K(0, 2)), h.v(sink.b), b0))
        h.ghost_next(wv, z3.If(complete, K(1, 1), z3.If(out_fire, K(0, 1), wv))); h.ghost_next(wn, z3.If(complete, acc_n + 1, wn))
        h.ghost_next(wa, z3.If(complete, z3.If(acc_n == K(0, 2), z3.Concat(z3.Extract(7, 4, wa), h.v(sink.a)), z3.Concat(h.v(sink.a), a0)), wa))
        h.ghost_next(wb, z3.If(complete, z3.If(acc_n == K(0, 2), z3.Concat(z3.Extract(3, 2, wb), h.v(sink.b)), z3.Concat(h.v(sink.b), b0)), wb))
        h.ensure("ens.valid", b(h.v(source.valid)) == b(wv))
        h.ensure("ens.fields", z3.Implies(b(h.v(source.valid)), z3.And(z3.Extract(3, 0, h.v(source.a)) == z3.Extract(3, 0, wa), z3.Extract(1, 0, h.v(source.b)) == z3.Extract(1, 0, wb),
                               z3.Implies(wn == K(2, 2), z3.And(h.v(source.a) == wa, h.v(source.b) == wb)))))
        h.ensure("ens.cap", z3.Implies(complete, z3.Or(z3.Not(b(wv)), out_fire)))
        if with_param:
            # the param of the word delivered is the param of (the last sub-token of) that word
            wp = h.ghost("wp", 3); h.ghost_next(wp, z3.If(complete, h.v(sink.p), wp))
            h.ensure("ens.param", z3.Implies(b(h.v(source.valid)), h.v(source.p) == wp))
            h.hint("param", z3.Implies(b(wv), h.v(source.p) == wp))
        raw = [s_ for s_ in h.ts.state if s_.nbits == 12]
        h.hint("wn", z3.Implies(b(wv), z3.And(uge(wn, 1), ule(wn, 2)))); h.hint("acc_n<2", ult(acc_n, 2)); h.hint("wv->acc0", z3.Implies(b(wv), acc_n == K(0, 2)))
        if len(raw) == 1:
            R = h.v(raw[0])     # raw word: element i occupies bits [6i, 6i+6): a (4 bits) then b (2 bits)
            h.hint("raw0.acc", z3.Implies(z3.And(z3.Not(b(wv)), ugt(acc_n, 0)), z3.And(z3.Extract(3, 0, R) == a0, z3.Extract(5, 4, R) == b0)))
            h.hint("raw.w0", z3.Implies(b(wv), z3.And(z3.Extract(3, 0, R) == z3.Extract(3, 0, wa), z3.Extract(5, 4, R) == z3.Extract(1, 0, wb))))
            h.hint("raw.w1", z3.Implies(z3.And(b(wv), wn == K(2, 2)), z3.And(z3.Extract(9, 6, R) == z3.Extract(7, 4, wa), z3.Extract(11, 10, R) == z3.Extract(3, 2, wb))))
        h.respond("resp.move", z3.And(b(h.v(sink.valid)), b(h.v(source.ready))), z3.Or(in_fire, out_fire), 1)
    hold_clause(h, source)
    h.use_auto = True
    h.cover("cover.deliver", out_fire, depth=5)
    h.functions = ["litex.soc.interconnect.stream.StrideConverter.__init__", "litex.soc.interconnect.stream.Converter.__init__"]
    return h

def c_unpack(n, reverse, with_param=False):
    lay = stream.EndpointDescription([("d", 3)], [("p", 2)] if with_param else [])
    d = mk(stream.Unpack, n, lay, reverse); sink, source = d.sink, d.source
    h = HwCheck(f"Unpack({n},rev={reverse},param={with_param})", d, ep_inputs(sink, source))
    GW = max(2, n.bit_length()); g = h.ghost("idx", GW); lastc = g == K(n - 1, GW)
    in_fire, out_fire = fire(h, sink), fire(h, source)
    h.ghost_next(g, z3.If(out_fire, z3.If(lastc, K(0, GW), g + 1), g))
    producer_holds(h, sink); h.hint("idx<n", ult(g, n))
    mux = L(d, "mux")
    if mux is not None and mux in h.ts.var: h.hint("mux=idx", zx(h.v(mux), GW) == g)
    def chunk(i):
        c = n - 1 - i if reverse else i
        return h.v(getattr(sink.payload, f"chunk{c}").d)
    spec = chunk(n - 1)
    for i in reversed(range(n - 1)): spec = z3.If(g == K(i, GW), chunk(i), spec)
    h.ensure("ens.valid", h.v(source.valid) == h.v(sink.valid))
    h.ensure("ens.data", z3.Implies(b(h.v(source.valid)), h.v(source.d) == spec))
    h.ensure("ens.flags", z3.Implies(b(h.v(source.valid)), z3.And(b(h.v(source.first)) == z3.And(b(h.v(sink.first)), g == K(0, GW)), b(h.v(source.last)) == z3.And(b(h.v(sink.last)), lastc))))
    h.ensure("ens.consume", in_fire == z3.And(out_fire, lastc))
    if with_param: h.ensure("ens.param", z3.Implies(b(h.v(source.valid)), h.v(source.p) == h.v(sink.p)))
    hold_clause(h, source)
    h.respond("resp.move", z3.And(b(h.v(sink.valid)), b(h.v(source.ready))), out_fire, 1)
    h.cover("cover.consume", in_fire, depth=n + 2)
    h.use_auto = True
    h.functions = ["litex.soc.interconnect.stream.Unpack.__init__", "litex.soc.interconnect.stream.pack_layout"]
    return h

def c_pack(n, reverse, with_param=False):
    lay = stream.EndpointDescription([("d", 3)], [("p", 2)] if with_param else [])
    d = mk(stream.Pack, lay, n, reverse); sink, source = d.sink, d.source
    h = HwCheck(f"Pack({n},rev={reverse},param={with_param})", d, ep_inputs(sink, source))
    in_fire, out_fire = fire(h, sink), fire(h, source)
    GW, acc_n, acc, acc_f, acc_l, w_valid, w_cnt, w, w_f, w_l, complete = up_ghost(h, sink, source, n, 3, h.v(sink.d), in_fire, out_fire)
    producer_holds(h, sink)
    def lane(k):
        c = n - 1 - k if reverse else k
        return h.v(getattr(source.payload, f"chunk{c}").d)
    dm, st = L(d, "demux"), L(d, "strobe_all")
    if dm is not None and st is not None and dm in h.ts.var and st in h.ts.var:
        h.hint("demux=acc_n", zx(h.v(dm), GW) == acc_n); h.hint("strobe=w_valid", h.v(st) == w_valid)
    h.hint("strobe->acc0", z3.Implies(b(w_valid), acc_n == K(0, GW))); h.hint("acc_n<n", ult(acc_n, n))
    h.hint("wcnt", z3.Implies(b(w_valid), z3.And(uge(w_cnt, 1), ule(w_cnt, n))))
    h.hint("wfl", z3.Implies(b(w_valid), z3.And(h.v(source.first) == w_f, h.v(source.last) == w_l)))
    h.hint("accfl", z3.Implies(z3.And(z3.Not(b(w_valid)), acc_n != K(0, GW)), z3.And(h.v(source.first) == acc_f, h.v(source.last) == acc_l)))
    h.hint("idlefl", z3.Implies(z3.And(z3.Not(b(w_valid)), acc_n == K(0, GW)), z3.And(h.v(source.first) == K(0, 1), h.v(source.last) == K(0, 1))))
    for k in range(n):
        h.hint(f"lane{k}.acc", z3.Implies(z3.And(z3.Not(b(w_valid)), ugt(acc_n, k)), lane(k) == acc[k]))
        h.hint(f"lane{k}.w",   z3.Implies(z3.And(b(w_valid), ugt(w_cnt, k)), lane(k) == w[k]))
        h.view(f"acc{k}", acc[k]); h.view(f"w{k}", w[k])
    h.ensure("ens.present", b(w_valid) == b(h.v(source.valid)))
    h.ensure("ens.data", z3.Implies(b(h.v(source.valid)), z3.And(b(w_valid), *[z3.Implies(ugt(w_cnt, k), lane(k) == w[k]) for k in range(n)])))
    # first/last of the packed word = OR of the first/last of its sub-tokens (same documented rule as _UpConverter)
    h.ensure("ens.flags", z3.Implies(b(h.v(source.valid)), z3.And(h.v(source.first) == w_f, h.v(source.last) == w_l)))
    h.ensure("ens.cap", z3.Implies(complete, z3.Or(z3.Not(b(w_valid)), out_fire)))
    if with_param:
        wp = h.ghost("wp", 2); h.ghost_next(wp, z3.If(complete, h.v(sink.p), wp))
        h.ensure("ens.param", z3.Implies(b(h.v(source.valid)), h.v(source.p) == wp))
        h.hint("param", z3.Implies(b(w_valid), h.v(source.p) == wp))
    hold_clause(h, source)
    h.respond("resp.move", z3.And(b(h.v(sink.valid)), b(h.v(source.ready))), z3.Or(in_fire, out_fire), 1)
    h.cover("cover.deliver", out_fire, depth=n + 3)
    h.use_auto = True
    h.functions = ["litex.soc.interconnect.stream.Pack.__init__", "litex.soc.interconnect.stream.pack_layout"]
    return h

def c_delay(n):
    d = mk(stream.Delay, LAYOUT, n)
    h = fifo_like(f"Delay({n})", d, n, None, latency=n)
    bufs = [m for m in locals_of(d).get("buffers", [])]
    if bufs: chain_hints(h, bufs)
    h.functions = ["litex.soc.interconnect.stream.Delay.__init__", "litex.soc.interconnect.stream.Pipeline.do_finalize", "litex.soc.interconnect.stream.Buffer.__init__"]
    return h


def c_pipeline(kind):
    """2-3 element compositions through the real Pipeline (flattened)"""
    from litex.gen import LiteXModule
    class Top(LiteXModule):
        def __init__(self):
            if kind == "buf+buf":
                self.a = stream.Buffer(LAYOUT, pipe_valid=True, pipe_ready=False); self.b = stream.Buffer(LAYOUT, pipe_valid=False, pipe_ready=True)
                mods = [self.a, self.b]
            elif kind == "fifo+buf":
                self.a = stream.SyncFIFO(LAYOUT, 2); self.b = stream.Buffer(LAYOUT, pipe_valid=True, pipe_ready=True)
                mods = [self.a, self.b]
            elif kind == "buf+fifo+buf":
                self.a = stream.Buffer(LAYOUT); self.b = stream.SyncFIFO(LAYOUT, 2); self.c = stream.Buffer(LAYOUT)
                mods = [self.a, self.b, self.c]
            self.p = stream.Pipeline(*mods)
            self.sink, self.source = self.p.sink, self.p.source
    d = mk(Top)
    cap = {"buf+buf": 2, "fifo+buf": 4, "buf+fifo+buf": 4}[kind]
    h = fifo_like(f"Pipeline({kind})", d, cap, None, bypass=(kind == "XX"), latency=3, N=cap + 4)
    chain_hints(h, d.p.modules)
    h.auto_width = 6
    h.functions = ["litex.soc.interconnect.stream.Pipeline.do_finalize", "litex.soc.interconnect.stream.Endpoint.connect (Record.connect)"]
    return h

def c_updown(ratio=2, w=2):
    """Pipeline(_UpConverter -> _DownConverter): identity on full words (C04 composition; C03 for tokens without early last)"""
    from litex.gen import LiteXModule
    class Top(LiteXModule):
        def __init__(self):
            self.up = stream.Converter(w, w * ratio); self.down = stream.Converter(w * ratio, w)
            self.p = stream.Pipeline(self.up, self.down)
            self.sink, self.source = self.p.sink, self.p.source
    d = mk(Top); sink, source = d.sink, d.source
    h = HwCheck(f"Pipeline(Up{w}->{w*ratio},Down)", d, ep_inputs(sink, source))
    producer_holds(h, sink); hold_clause(h, source)
    in_fire, out_fire = fire(h, sink), fire(h, source)
    h.respond("resp.move", z3.And(b(h.v(sink.valid)), b(h.v(source.ready))), z3.Or(in_fire, out_fire), 2)
    h.cover("cover.deliver", out_fire, depth=ratio + 4)
    h.use_auto = True
    h.functions = ["litex.soc.interconnect.stream.Pipeline.do_finalize", "litex.soc.interconnect.stream.Converter.__init__"]
    return h

def c_bufferize():
    from litex.gen import LiteXModule
    class Inner(LiteXModule):
        def __init__(self):
            self.sink = stream.Endpoint(LAYOUT); self.source = stream.Endpoint(LAYOUT)
            self.comb += self.sink.connect(self.source)
    d = mk(lambda: stream.BufferizeEndpoints({"sink": stream.DIR_SINK, "source": stream.DIR_SOURCE})(Inner()))
    h = fifo_like("BufferizeEndpoints(sink+source)", d, 2, None, latency=2)
    bufs = [m for _, m in d._submodules if isinstance(m, stream.Buffer)]
    chain_hints(h, bufs)
    h.functions = ["litex.soc.interconnect.stream.BufferizeEndpoints.transform_instance"]
    return h

# ---------------------------------------------------------------------------------------------------
# generic hints for chains of buffering stages: slots listed from the OUTPUT side to the input side; the j-th occupied
# slot (counted from the output) holds ghost queue element j
def slots_of(h, m):
    """[(occupied Bool, token BV)] from output side to input side, or None if the element's internals are not recognised"""
    try:
        if isinstance(m, stream.PipeValid):
            return [(b(h.v(m.source.valid)), tok(h, m.source))]
        if isinstance(m, stream.PipeReady):
            valid, sd = L(m, "valid"), L(m, "sink_d")
            h.hint(f"pr{id(m)%997}.sv", z3.Implies(b(h.v(valid)), b(h.v(sd.valid))))
            return [(b(h.v(valid)), tok(h, sd))]
        if isinstance(m, stream.Buffer):
            out = []
            if hasattr(m, "pipe_ready"): out += slots_of(h, m.pipe_ready)
            if hasattr(m, "pipe_valid"): out += slots_of(h, m.pipe_valid)
            return out
        if isinstance(m, stream.SyncFIFO):
            if m.depth == 0: return []
            if m.depth == 1: return slots_of(h, m.buf) if hasattr(m, "buf") else None
            f = m.fifo; front = []
            if hasattr(f, "fifo") and hasattr(f, "readable"):          # buffered: output register stage (readable flag + dout register) in front of the inner FIFO
                front = [(b(h.v(f.readable)), tok(h, m.source))]; f = f.fifo
            lf = locals_of(f); produce, consume, storage = lf.get("produce"), lf.get("consume"), lf.get("storage")
            mem = h.ts.mems[storage]; depth = m.depth
            def word(i):
                idx = zx(h.v(consume), 8) + K(i, 8)
                idx = z3.If(z3.UGE(idx, K(depth, 8)), idx - K(depth, 8), idx)
                r = h.v(mem[depth - 1])
                for j in reversed(range(depth - 1)): r = z3.If(idx == K(j, 8), h.v(mem[j]), r)
                return r
            def unpack(w):
                off = 0; pay = []; par = []
                for s, _ in m.sink.payload.iter_flat(): pay.append(z3.Extract(off + s.nbits - 1, off, w)); off += s.nbits
                for s, _ in m.sink.param.iter_flat(): par.append(z3.Extract(off + s.nbits - 1, off, w)); off += s.nbits
                return cat(z3.Extract(off, off, w), z3.Extract(off + 1, off + 1, w), *pay, *par)
            h.hint(f"fifo{id(m)%997}.ptr", z3.URem(zx(h.v(consume), 8) + zx(h.v(f.level), 8), K(depth, 8)) == zx(h.v(produce), 8))
            h.hint(f"fifo{id(m)%997}.c", ult(h.v(consume), depth)); h.hint(f"fifo{id(m)%997}.p", ult(h.v(produce), depth)); h.hint(f"fifo{id(m)%997}.l", ule(h.v(f.level), depth))
            return front + [(ugt(h.v(f.level), i), unpack(word(i))) for i in range(depth)]
    except (AttributeError, KeyError, TypeError):
        return None
    return None

def chain_hints(h, modules):
    slots = []
    for m in reversed(modules):
        s = slots_of(h, m)
        if s is None: return False
        slots += s
    LW = h.qlen.size()
    cnt = K(0, LW)
    for i, (occ, t) in enumerate(slots):
        if t.size() != h.q[0].size(): return False        # the storage slot no longer has the shape of a whole token (hints only: fall back to the generated candidates)
        for j in range(min(i + 1, len(h.q))):
            h.hint(f"slot{i}@{j}", z3.Implies(z3.And(occ, cnt == K(j, LW)), t == h.q[j]))
        cnt = cnt + z3.If(occ, K(1, LW), K(0, LW))
    h.hint("qlen=occupied", h.qlen == cnt)
    return True
