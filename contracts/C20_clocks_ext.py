"""C20 (extension): the clocking helpers that C20_clocks.py leaves out - NXPLL, IntelClocking (Cyclone IV/V/10LP, MAX10, Stratix V
tables), GW1NPLL/GW2APLL, GW5APLL, USPMMCM (own fractional search), TRIONPLL (Efinix), GateMatePLL (CologneChip, no search).
Engine E3 as in C20_clocks.py: the real compute_config source is re-read, its search loops are cut at the loop heads and it runs on
symbolic REALS; verification conditions go to z3.  Two loop shapes occur:
 * first-fit searches (return inside the loops: NXPLL, USPMMCM): the cut of C20_clocks.py (loop variable havocked in its range;
   soundness needs only the facts of the returning iteration; entries of `config` written by rejected candidates are havocked);
 * best-of searches (every admissible candidate is appended to a collection, the best one is selected after the loops: Intel,
   GW1N, GW5A): the collection is abstracted by the invariant 'every member satisfies the postcondition' - at a loop head it is
   replaced by zero or one ARBITRARY member that is assumed to satisfy the postcondition with ghost witnesses, an arbitrary iteration
   runs, and every member the iteration adds is CHECKED against the postcondition (obligation `inv.member`); the code after the loops
   then selects from the abstract collection.
Bounded stand-ins (labelled bounded, never counted as proved): instance parameters of do_finalize, completeness against an
independent brute-force search, and soundness grids where the symbolic route is not used."""
import sys, time, logging, itertools, math, io, contextlib, ast, inspect, textwrap, z3
from vf import elab
from vf import symx, loopcut
from vf.symx import explore as sx_explore, SymBool, SymInt, PathEnd
from vf.loopcut import SymReal, VC, rewrite, _r
from vf.core import Case, PROVED, VIOLATED, NOINPUT, UNKNOWN, BOUNDED_OK, OK, VACUOUS
from vf.hw import res
from migen import Signal, ClockDomain
from contracts.C20_clocks import _in_range, _vc_obl, _collect, _frame_check, _rb
from litex.soc.cores.clock import lattice_nx, intel_common, intel_cyclone4, intel_cyclone5, intel_cyclone10, intel_max10, intel_stratix5
from litex.soc.cores.clock import gowin_gw1n, gowin_gw2a, gowin_gw5a, xilinx_usp, efinix, colognechip
from litex.soc.cores.clock.xilinx_common import XilinxClocking

M = "litex.soc.cores.clock."
_nolog = {"compute_config_log": lambda *a, **k: None}

def _within(fo, f, m):
    """|fo - f| <= f*m over z3 reals (the property's 'met within its stated margin', relative to the REQUESTED frequency)"""
    return z3.And(fo - f.t <= f.t * m.t, f.t - fo <= f.t * m.t)

def _mark_findings(out, whats):
    """results whose name contains a key of `whats` are clauses expected to fail on the unchanged tree (finding-witness)"""
    for r_ in out:
        for key, what in whats.items():
            if key in r_["name"]: r_["kind"] = "finding-witness"; r_["what"] = what
    # one result per finding clause and case: the per-path instances (name#k) are merged (fails if it fails on any path)
    merged = {}; res_out = []
    for r_ in out:
        if r_.get("kind") != "finding-witness": res_out.append(r_); continue
        base = r_["name"].split("#")[0]
        if base not in merged:
            merged[base] = dict(r_, name=base, instances=0, failing=0, undecided=0); res_out.append(merged[base])
        g = merged[base]; g["instances"] += 1
        if r_["status"] == NOINPUT:
            g["failing"] += 1
            if g["status"] != NOINPUT: g["status"] = NOINPUT; g["model"] = r_.get("model")
        elif r_["status"] == UNKNOWN:
            g["undecided"] += 1
            if g["status"] == PROVED: g["status"] = UNKNOWN
    for g in merged.values():
        if g["status"] == PROVED: g["kind"] = "pysym"; g.pop("what", None)      # the clause holds at this parameterisation (e.g. a single output): an ordinary proved obligation
    return res_out

def _quiet(): return contextlib.redirect_stdout(io.StringIO())

# ------------------------------------------------------------------------------------------------------------------ path explorer
class CtxU(symx.Ctx):
    """symx.Ctx that never takes a solver 'unknown' for 'infeasible': an undecided feasibility query keeps the path (both branches are
    explored, an assumption is kept) and is counted; the count is reported as an obligation of the case"""
    unknowns = 0; queries = 0; slow = []
    def _chk(self, *a):
        t = time.time(); r = self.solver.check(*a); dt = time.time() - t
        CtxU.queries += 1
        if dt > 5: CtxU.slow.append(round(dt, 1))
        if r == z3.unknown: CtxU.unknowns += 1
        return r
    def assume(self, b):
        b = b.t if isinstance(b, SymBool) else z3.BoolVal(bool(b))
        self.pc.append(b)                  # no feasibility query here: an infeasible path is pruned at its next branch (or its obligations hold vacuously)
        if z3.is_false(b): raise PathEnd()
    def branch(self, cond):
        if self.pos < len(self.decisions):
            d = self.decisions[self.pos]
        else:
            t_ok = self._chk(*self.pc, cond) != z3.unsat
            f_ok = self._chk(*self.pc, z3.Not(cond)) != z3.unsat
            if t_ok and f_ok: d = True; self.decisions.append(True)
            elif t_ok: d = "T"; self.decisions.append("T")
            elif f_ok: d = "F"; self.decisions.append("F")
            else: raise PathEnd()
        self.pos += 1
        r = d in (True, "T")
        self.pc.append(cond if r else z3.Not(cond))
        return r

def explore(fn, timeout_ms=None):
    timeout_ms = timeout_ms or SOLVER_TIMEOUT_MS; del SIDE[:]
    """symx.explore with CtxU (same search order and result format); per-query timeout optional"""
    CtxU.unknowns = 0; CtxU.queries = 0; CtxU.slow = []
    stack = [[]]; results = []; paths = 0
    dbg = bool(__import__("os").environ.get("C20X_DEBUG"))
    while stack:
        dec = stack.pop()
        symx.CTX = CtxU(); symx.CTX.decisions = list(dec)
        if timeout_ms: symx.CTX.solver.set("timeout", timeout_ms)
        t0 = time.time()
        try:
            out = fn(symx.CTX); paths += 1
            for name, ob in out:
                t1 = time.time(); r, mdl = _decide(list(symx.CTX.pc) + [z3.Not(ob)])
                if dbg: print(f"   obl {name} {r} {time.time()-t1:.1f}s", flush=True)
                results.append((name, r, mdl))
        except PathEnd:
            pass
        d = symx.CTX.decisions
        if dbg: print(f" path dec={d} {time.time()-t0:.1f}s queries={CtxU.queries} unknown={CtxU.unknowns}", flush=True)
        for i in range(len(dec), len(d)):
            if d[i] is True: stack.append(d[:i] + [False])
    results += SIDE
    return paths, results

# ---------------------------------------------------------------------------------------------------------------- NXPLL (first fit)
NX_FINDINGS = {
    "finding.ranges.pfd>=vco_in_min": "NXPLL.compute_config never checks clkin/clki_div against the declared vco_in_freq_range (10-500 MHz): it returns input dividers that put the phase detector below 10 MHz (e.g. clkin 15 MHz, out 401.25 MHz margin 1e-4: clki_div 2, 7.5 MHz)",
}
def _mk_nx():
    pll = object.__new__(lattice_nx.NXPLL)          # compute_config reads the class range tables, clkin_freq and clkouts only (the analog tables of __init__ are not used)
    pll.logger = logging.getLogger("NXPLL"); pll.clkouts = {}; pll.nclkouts = 0; pll.clkin_freq = None
    return pll

def c_nx(nout):
    t0 = time.time()
    ok_shape, why = _frame_check(lattice_nx.NXPLL.compute_config)
    if not ok_shape:
        return dict(results=[res("NXPLL.compute_config.frame", "pysym", UNKNOWN, 0, "", info=why)], functions=[])
    def run(ctx):
        pll = _mk_nx()
        def head_fb(vc, it, L):
            # entries of `config` written by earlier (rejected) candidates are unknown at the head of a candidate iteration
            cfg = L["config"]
            for n in range(nout):
                cfg[f"clko{n}_div"] = vc.fresh("int", f"stale_div{n}"); cfg[f"clko{n}_freq"] = vc.fresh("real", f"stale_f{n}")
            return _in_range(ctx, vc, "clkfb_div", *L["self"].clkfb_div_range)
        vc = VC({0: dict(elem=lambda vc, it, L: _in_range(ctx, vc, "clki_div", *L["self"].clki_div_range)),
                 1: dict(elem=head_fb),
                 3: dict(elem=lambda vc, it, L: _in_range(ctx, vc, "d", *L["self"].clko_div_range))})    # frame: a non-leaving iteration assigns clk_freq only (_frame_check)
        fn, src = rewrite(lattice_nx.NXPLL.compute_config, vc.specs, vc, extra_globals=_nolog)
        fin = SymReal(z3.Real("fin")); ctx.assume(fin >= pll.clki_freq_range[0]); ctx.assume(fin <= pll.clki_freq_range[1])
        pll.clkin_freq = fin
        reqs = []
        for n in range(nout):
            f = SymReal(z3.Real(f"f{n}")); m = SymReal(z3.Real(f"m{n}")); ctx.assume(f > 0); ctx.assume(m >= 0)
            pll.clkouts[n] = (Signal(), f, 0, m); reqs.append((f, m))
        pll.nclkouts = nout
        try:
            cfg = fn(pll)
        except ValueError:
            return _vc_obl(vc)
        obl = _vc_obl(vc)
        ki, kf = cfg["clki_div"], cfg["clkfb_div"]
        pfd = _r(fin) / _r(ki); vco = pfd * _r(kf)
        obl.append(("ens.ranges.vco", z3.And(vco >= pll.vco_out_freq_range[0], vco <= pll.vco_out_freq_range[1])))
        obl.append(("ens.ranges.clki_div", z3.And(_r(ki) >= pll.clki_div_range[0], _r(ki) < pll.clki_div_range[1])))
        obl.append(("ens.ranges.clkfb_div", z3.And(_r(kf) >= pll.clkfb_div_range[0], _r(kf) < pll.clkfb_div_range[1])))
        obl.append(("finding.ranges.pfd>=vco_in_min", pfd >= pll.vco_in_freq_range[0]))
        obl.append(("ens.ranges.pfd<=vco_in_max", pfd <= pll.vco_in_freq_range[1]))
        for n, (f, m) in enumerate(reqs):
            d = cfg[f"clko{n}_div"]
            obl.append((f"ens.meets{n}", _within(vco / _r(d), f, m)))
            obl.append((f"ens.ranges.d{n}", z3.And(_r(d) >= pll.clko_div_range[0], _r(d) < pll.clko_div_range[1])))
        return obl
    paths, results = explore(run)
    out = _mark_findings(_collect(f"NXPLL(nout={nout}).compute_config", paths, results, t0), NX_FINDINGS)
    return dict(results=out, functions=[M + "lattice_nx.NXPLL.compute_config"],
                samples=[dict(function="NXPLL.compute_config", paths=paths, inputs="symbolic real clkin_freq in clki_freq_range, output frequencies and margins")])

def _nx_exists(pll, fin, outs, with_pfd=True):
    """independent exhaustive search over the declared NXPLL ranges"""
    for ki in range(*pll.clki_div_range):
        pfd = fin / ki
        if with_pfd and not (pll.vco_in_freq_range[0] <= pfd <= pll.vco_in_freq_range[1]): continue
        for kf in range(*pll.clkfb_div_range):
            vco = pfd * kf
            if not (pll.vco_out_freq_range[0] <= vco <= pll.vco_out_freq_range[1]): continue
            if all(any(abs(vco / d - f) <= f * m for d in range(*pll.clko_div_range)) for (f, m) in outs): return (ki, kf)
    return None

def c_nx_instance():
    """NXPLL: instance parameters against the returned configuration, recomputed frequencies, completeness (bounded: enumerated requests)"""
    out = []; evals = 0; bad = []; badc = []; badm = []; badki = []
    reqs = [(100e6, [(100e6, 1e-2), (200e6, 1e-2)]), (25e6, [(125e6, 1e-2)]), (12e6, [(48e6, 1e-2), (96e6, 1e-2), (24e6, 1e-2)]), (100e6, [(33.33e6, 1e-3)]),
            (24e6, [(148.5e6, 1e-3)]), (10e6, [(799e6, 1e-5)]), (125e6, [(62.5e6, 0)]), (27e6, [(74.25e6, 1e-4), (148.5e6, 1e-4)]), (500e6, [(6.25e6, 0)])]
    for fin, outs in reqs:
        evals += 1
        with _quiet():
            pll = lattice_nx.NXPLL(); pll.logger.disabled = True
            pll.register_clkin(Signal(), fin)
            for k, (f, m) in enumerate(outs): pll.create_clkout(ClockDomain(f"o{k}"), f, margin=m)
            try: cfg = pll.compute_config()
            except ValueError: cfg = None
        ex = _nx_exists(pll, fin, outs)
        if cfg is None and ex is not None: badc.append((fin, outs, f"refused although clki_div={ex[0]} clkfb_div={ex[1]} satisfies it"))
        if cfg is None: continue
        try:
            with _quiet(): pll.do_finalize()
            p = pll.params
            ok = p["p_DIVF"] == str(cfg["clkfb_div"] - 1)
            if p["p_REF_MMD_DIG"] != str(cfg["clki_div"]): badki.append((fin, outs, f"clki_div={cfg['clki_div']} p_REF_MMD_DIG={p['p_REF_MMD_DIG']}"))
            vco = fin / int(p["p_REF_MMD_DIG"]) * (int(p["p_DIVF"]) + 1)          # as the emitted instance computes it
            for n, (f, m) in enumerate(outs):
                ok = ok and p[f"p_DIV{chr(65 + n)}"] == str(cfg[f"clko{n}_div"] - 1)
                if cfg["clki_div"] == 1 and abs(vco / (int(p[f"p_DIV{chr(65 + n)}"]) + 1) - f) > f * m * (1 + 1e-9): badm.append((fin, outs, n))
            if not ok: bad.append((fin, outs, {k: p[k] for k in ("p_REF_MMD_DIG", "p_DIVF")}, cfg))
        except Exception as e: bad.append((fin, outs, f"{type(e).__name__}: {e}"))
    out.append(res(f"ens.instance[NXPLL, {evals} requests: feedback and output dividers]", "bounded", BOUNDED_OK if not bad else VIOLATED, 0, "executed; Instance parameters compared with compute_config()", evaluations=evals, info=str(bad[:2])))
    out.append(res(f"finding.instance.clki_div[NXPLL, {evals} requests: input divider]", "finding-witness", PROVED if not badki else VIOLATED, 0, "executed; p_REF_MMD_DIG compared with config['clki_div']", evaluations=evals, info=str(badki[:3]),
                   what="NXPLL.do_finalize hard-codes p_REF_MMD_DIG='1': whenever compute_config selects clki_div != 1 (e.g. clkin 24 MHz / out 148.5 MHz margin 1e-3: clki_div 2; clkin 500 MHz / out 6.25 MHz: clki_div 5) the emitted instance does not carry the configuration and produces other frequencies"))
    out.append(res(f"ens.instance.meets[NXPLL, requests with clki_div 1]", "bounded", BOUNDED_OK if not badm else VIOLATED, 0, "executed; frequencies recomputed from the emitted instance parameters", evaluations=evals, info=str(badm[:2])))
    out.append(res(f"ens.complete[NXPLL, {evals} requests]", "bounded", BOUNDED_OK if not badc else VIOLATED, 0, "independent exhaustive search", evaluations=evals, info=str(badc[:2])))
    # native witness of both NXPLL findings: the input divider is computed but never placed on the instance (REF_MMD_DIG is the constant "1")
    fin, f, m = 15e6, 401.25e6, 1e-4
    with _quiet():
        pll = lattice_nx.NXPLL(); pll.logger.disabled = True
        pll.register_clkin(Signal(), fin); pll.create_clkout(ClockDomain("w"), f, margin=m)
        try:
            cfg = pll.compute_config(); pll.do_finalize(); p = pll.params
        except ValueError: cfg = None
    nm1 = "finding.ranges.pfd.native[NXPLL clkin=15MHz,out=401.25MHz,margin=1e-4]"
    nm2 = "finding.instance.clki_div.native[NXPLL clkin=15MHz,out=401.25MHz,margin=1e-4]"
    if cfg is None:
        out += [res(nm1, "finding-witness", PROVED, 0, "executed", info="refused"), res(nm2, "finding-witness", PROVED, 0, "executed", info="refused")]
    else:
        pfd = fin / cfg["clki_div"]
        out.append(res(nm1, "finding-witness", VIOLATED if pfd < pll.vco_in_freq_range[0] else PROVED, 0, "executed", info=f"clki_div={cfg['clki_div']} pfd={pfd/1e6:g}MHz",
                       what="NXPLL.compute_config returns clki_div=2 for clkin 15 MHz / out 401.25 MHz (margin 1e-4): phase-detector input 7.5 MHz, below the declared vco_in_freq_range minimum of 10 MHz"))
        vco_hw = fin / int(p["p_REF_MMD_DIG"]) * (int(p["p_DIVF"]) + 1); fo_hw = vco_hw / (int(p["p_DIVA"]) + 1)
        okp = p["p_REF_MMD_DIG"] == str(cfg["clki_div"]) and abs(fo_hw - f) <= f * m
        out.append(res(nm2, "finding-witness", PROVED if okp else VIOLATED, 0, "executed", info=f"config clki_div={cfg['clki_div']} but p_REF_MMD_DIG={p['p_REF_MMD_DIG']}: instance VCO {vco_hw/1e6:g}MHz, output {fo_hw/1e6:g}MHz",
                       what="NXPLL.do_finalize hard-codes p_REF_MMD_DIG='1': a configuration with clki_div != 1 is not placed on the instance (clkin 15 MHz, out 401.25 MHz: the instance runs the VCO at 1605 MHz, outside 800-1600 MHz, and outputs 802.5 MHz instead of 401.25 MHz)"))
    return dict(results=out, functions=[M + "lattice_nx.NXPLL.do_finalize (bounded)", M + "lattice_nx.NXPLL.compute_config (completeness, bounded)"],
                samples=[dict(bounded="NXPLL instance parameters and completeness", evaluations=evals)])

# ------------------------------------------------------------------------------------------------- best-of searches: shared machinery
class VCX(VC):
    """VC with per-loop callbacks: `enter(vc, L) -> {havocked scalars}` replaces the state at the loop head by an arbitrary state of the
    invariant (containers are havocked in place), `leave(vc, L, what)` records the obligations of one arbitrary iteration"""
    def begin(self, lid, iterable, L):
        sp = self.specs[lid]
        if "enter" in sp: return sp["enter"](self, L) or {}
        return VC.begin(self, lid, iterable, L)
    def check(self, lid, L, what):
        sp = self.specs[lid]
        if "leave" in sp: return sp["leave"](self, L, what)
        return VC.check(self, lid, L, what)
    def more(self, lid):
        r = VC.more(self, lid)
        if not r and "exit" in self.specs[lid]: self.specs[lid]["exit"](self)
        return r
    def prove(self, name, t):
        """obligation of the current path (also of paths that end in a cut: those never reach the end of the explored function, so the
        result goes to the case-wide list SIDE instead of self.obl)"""
        r, mdl = _decide(list(symx.CTX.pc) + [z3.Not(t)]); SIDE.append((name, r, mdl))
    def fail(self, name): SIDE.append((name, z3.sat, None))

def _decide(constraints):
    """obligation query: z3 API 60 s; on 'unknown' (nonlinear real arithmetic under load) the portfolio (/usr/bin/z3 4.8.12, cvc5) and a longer API run
    are tried before the obligation is reported undecided.  Returns (z3 result, model|None)."""
    s = z3.Solver(); s.add(*constraints); s.set("timeout", 60000)
    r = s.check()
    if r != z3.unknown: return r, (s.model() if r == z3.sat else None)
    from vf import solvers
    st, m, be, _ = solvers.solve(list(constraints), timeout_ms=240000, order=("z3old", "cvc5", "api"), cli_timeout_s=120)
    if st == "unsat": return z3.unsat, None
    if st == "sat": return z3.sat, m
    return z3.unknown, None
SIDE = []
SOLVER_TIMEOUT_MS = 3000           # per feasibility query; an undecided query keeps the path (sound), see CtxU

def _abs_split(x):
    """abs() by case split instead of an if-then-else term (keeps the nonlinear queries ite-free)"""
    if not isinstance(x, SymInt): return abs(x)
    return x if bool(x >= 0) else 0 - x

def _ceil_c(vc, ctx):
    def f(x):
        if not isinstance(x, SymInt): return math.ceil(x)
        k = vc.fresh("int", "ceil"); ctx.assume(_rb(_r(k) - 1 < _r(x))); ctx.assume(_rb(_r(x) <= _r(k))); return k
    return f
def _floor_c(vc, ctx):
    def f(x):
        if not isinstance(x, SymInt): return math.floor(x)
        k = vc.fresh("int", "floor"); ctx.assume(_rb(_r(k) <= _r(x))); ctx.assume(_rb(_r(x) < _r(k) + 1)); return k
    return f
def _round_c(vc, ctx):
    def f(x, nd=None):
        if not isinstance(x, SymInt): return round(x) if nd is None else round(x, nd)
        if x.t.sort() == z3.IntSort(): return x
        k = vc.fresh("int", "round"); ctx.assume(_rb(_r(k) - z3.RealVal("1/2") <= _r(x))); ctx.assume(_rb(_r(x) <= _r(k) + z3.RealVal("1/2"))); return k
    return f
def _int_c(vc, ctx):
    """int(x) on a non-negative symbolic real: truncation"""
    def f(x, *a):
        if not isinstance(x, SymInt): return int(x, *a)
        if x.t.sort() == z3.IntSort(): return x
        k = vc.fresh("int", "trunc"); ctx.assume(_rb(_r(x) >= 0)); ctx.assume(_rb(_r(k) <= _r(x))); ctx.assume(_rb(_r(x) < _r(k) + 1)); return k
    return f
def _member(x, rng):
    """x is an integer member of range(*rng)"""
    return z3.And(_r(x) >= rng[0], _r(x) < rng[1], z3.IsInt(_r(x)))

# -------------------------------------------------------------------------------------------------------- IntelClocking (best of)
INTEL = {"CycloneIVPLL": intel_cyclone4.CycloneIVPLL, "CycloneVPLL": intel_cyclone5.CycloneVPLL, "Cyclone10LPPLL": intel_cyclone10.Cyclone10LPPLL,
         "Max10PLL": intel_max10.Max10PLL, "StratixVPLL": intel_stratix5.StratixVPLL}
INTEL_GRADES = {"CycloneIVPLL": ["-6", "-7", "-8", "-8L", "-9L"], "CycloneVPLL": ["-C6", "-C7", "-I7", "-C8", "-A7"], "Cyclone10LPPLL": ["-C6", "-C8", "-I7", "-A7", "-I8"],
                "Max10PLL": ["-6", "-7", "-8"], "StratixVPLL": ["-C1", "-C2", "-C2L", "-I2", "-I2L", "-C3", "-I3", "-I3L", "-C4", "-I4"]}

def c_intel(clsname, speedgrade, nout):
    cls = INTEL[clsname]; t0 = time.time()
    if cls.compute_config is not intel_common.IntelClocking.compute_config:
        return dict(results=[res(f"{clsname}.compute_config", "pysym", UNKNOWN, 0, "", info="class overrides compute_config: contract not applicable")], functions=[])
    def run(ctx):
        pll = cls(speedgrade=speedgrade); pll.logger.disabled = True
        fin = SymReal(z3.Real("fin")); ctx.assume(fin >= pll.clkin_freq_range[0]); ctx.assume(fin <= pll.clkin_freq_range[1])
        pll.clkin_freq = fin
        reqs = []
        for k in range(nout):
            f = SymReal(z3.Real(f"f{k}")); m = SymReal(z3.Real(f"m{k}")); ctx.assume(f > 0); ctx.assume(m >= 0)
            pll.clkouts[k] = (Signal(), f, 0, m); reqs.append((f, m))
        pll.nclkouts = nout
        ghost = {}                                    # id(config) -> dict(n=<input divider>, c={output: C counter}): specification-only witnesses
        vmin, vmax = pll.vco_freq_range
        def post(cfg, g):
            """postcondition of one candidate: ALTPLL computes clk_k = clkin * MULTIPLY_BY / DIVIDE_BY_k with DIVIDE_BY_k = c_k * n"""
            n, m = g["n"], cfg["m"]
            pfd = _r(fin) / _r(n); vco = _r(fin) * _r(m) / _r(n)
            cj = [("ranges.n", _member(n, pll.n_div_range)), ("ranges.m", _member(m, pll.m_div_range)),
                  ("ranges.pfd", z3.And(pfd >= pll.clkin_pfd_freq_range[0], pfd <= pll.clkin_pfd_freq_range[1])),
                  ("ranges.vco", z3.And(vco >= vmin * (1 + pll.vco_margin), vco <= vmax * (1 - pll.vco_margin)))]
            for k, (f, mg) in enumerate(reqs):
                if k not in g["c"] or f"clk{k}_divide" not in cfg: cj.append((f"defined{k}", z3.BoolVal(False))); continue
                c = g["c"][k]; dv = cfg[f"clk{k}_divide"]
                cj.append((f"ranges.c{k}", z3.And(_member(c, pll.c_div_range), _r(dv) == _r(c) * _r(n))))
                cj.append((f"meets{k}", _within(_r(fin) * _r(m) / _r(dv), f, mg)))          # recomputed from MULTIPLY_BY / DIVIDE_BY
            return cj
        def abstract_member(vc):
            n = vc.fresh("int", "n_a"); m = vc.fresh("int", "m_a"); g = dict(n=n, c={}, abstract=True)
            cfg = {"m": m, "vco": fin * m / n}
            for k in range(nout):
                c = vc.fresh("int", f"c_a{k}"); g["c"][k] = c
                cfg[f"clk{k}_freq"] = cfg["vco"] / c; cfg[f"clk{k}_divide"] = c * n; cfg[f"clk{k}_phase"] = 0
            for _, t in post(cfg, g): ctx.assume(_rb(t))
            ghost[id(cfg)] = g; keep.append(cfg); return cfg
        keep = []
        def enter_outer(vc, L):
            vcs = L["valid_configs"]; leave_outer(vc, L, "init"); vcs.clear()
            if bool(SymBool(z3.Bool(f"nonempty!{vc._n()}"))): vcs[vc.fresh("real", "key")] = abstract_member(vc)
        def leave_outer(vc, L, what):
            for cfg in L["valid_configs"].values():
                g = ghost.get(id(cfg))
                if g is None or g.get("abstract"):
                    if g is None: vc.fail("inv.member.ghost")
                    continue
                g["n"] = L["n"]
                for nm, t in post(cfg, g): vc.prove(f"inv.member.{nm}", t)
        def enter_c(vc, L):
            cfg, k = L["config"], L["_n"]
            if not bool(SymBool(z3.Bool(f"found!{vc._n()}"))): return dict(best_diff=vc.fresh("real", "inf"))   # float("inf") over-approximated by an arbitrary real (both outcomes of `diff < best_diff` are explored)
            c = _in_range(ctx, vc, "c_g", *pll.c_div_range); fo = L["vco_freq"] / c
            ctx.assume(fo - L["f"] <= L["f"] * L["_m"]); ctx.assume(L["f"] - fo <= L["f"] * L["_m"])
            cfg[f"clk{k}_freq"] = fo; cfg[f"clk{k}_divide"] = c * L["n"]; cfg[f"clk{k}_phase"] = L["p"]
            L["clk_valid"][k] = True; dr = vc.fresh("real", "diff_ratio"); ctx.assume(dr >= 0); L["diff_ratios"][k] = dr
            ghost.setdefault(id(cfg), dict(n=None, c={}))["c"][k] = c; keep.append(cfg)
            return dict(best_diff=vc.fresh("real", "best_diff"))
        def leave_c(vc, L, what):
            if what == "init": return
            cfg, k = L["config"], L["_n"]
            if not L["clk_valid"][k]:
                SIDE.append(("inv.cloop.untouched", z3.unsat if f"clk{k}_divide" not in cfg else z3.sat, None)); return
            cands = [L["c"]] + ([ghost[id(cfg)]["c"][k]] if id(cfg) in ghost and k in ghost[id(cfg)]["c"] else [])
            alt = [z3.And(_r(cfg[f"clk{k}_divide"]) == _r(c) * _r(L["n"]), _member(c, pll.c_div_range), _r(cfg[f"clk{k}_freq"]) == _r(L["vco_freq"]) / _r(c),
                          _within(_r(L["vco_freq"]) / _r(c), L["f"], L["_m"])) for c in cands]
            vc.prove("inv.cloop.step", z3.Or(*alt))
        def elem_n(vc, it, L):
            x = vc.fresh("int", "n"); ctx.assume(x >= L["min_n"]); ctx.assume(x < L["max_n"]); return x
        vc = VCX({0: dict(enter=enter_outer, leave=leave_outer, elem=elem_n),
                  1: dict(enter=enter_outer, leave=leave_outer, elem=lambda vc, it, L: _in_range(ctx, vc, "m", *pll.m_div_range)),
                  3: dict(enter=enter_c, leave=leave_c, havoc=dict(best_diff="real"), elem=lambda vc, it, L: _in_range(ctx, vc, "c", *pll.c_div_range))})
        import types
        fake_math = types.SimpleNamespace(ceil=_ceil_c(vc, ctx), floor=_floor_c(vc, ctx))
        fn, src = rewrite(intel_common.IntelClocking.compute_config, vc.specs, vc,
                          extra_globals=dict(_nolog, math=fake_math, abs=_abs_split, geometric_mean=lambda vals: vc.fresh("real", "gmean")))
        try:
            cfg = fn(pll)
        except ValueError:
            return _vc_obl(vc)
        obl = _vc_obl(vc)
        g = ghost.get(id(cfg))
        if g is None: return obl + [("ens.returned-is-member", z3.BoolVal(False))]
        obl.append(("ens.returned-is-member", z3.BoolVal(True)))
        obl += [("ens." + nm, t) for nm, t in post(cfg, g)]
        return obl
    paths, results = explore(run)
    return dict(results=_collect(f"{clsname}(sg={speedgrade},nout={nout}).compute_config", paths, results, t0),
                functions=[M + "intel_common.IntelClocking.compute_config", M + f"{cls.__module__.split('.')[-1]}.{clsname}.__init__ (range tables)",
                           M + "intel_common.geometric_mean (replaced by: returns some real)"],
                samples=[dict(function=f"{clsname}.compute_config", paths=paths, inputs="symbolic real clkin_freq in clkin_freq_range, output frequencies and margins")])

def c_intel_tables():
    """the device files only set tables: every attribute compute_config reads exists on every class / speed grade with the expected shape,
    and no device class overrides compute_config or do_finalize"""
    tree = ast.parse(textwrap.dedent(inspect.getsource(intel_common.IntelClocking.compute_config)))
    reads = sorted({n.attr for n in ast.walk(tree) if isinstance(n, ast.Attribute) and isinstance(n.value, ast.Name) and n.value.id == "self"} - {"logger", "clkouts", "clkin_freq"})
    out = []
    for clsname, cls in INTEL.items():
        bad = []
        if cls.compute_config is not intel_common.IntelClocking.compute_config or cls.do_finalize is not intel_common.IntelClocking.do_finalize: bad.append("overrides compute_config/do_finalize")
        for sg in INTEL_GRADES[clsname]:
            pll = cls(speedgrade=sg)
            for a in reads:
                v = getattr(pll, a, None)
                if a == "vco_margin": ok = isinstance(v, (int, float)) and 0 <= v < 1
                elif a.endswith("_div_range"): ok = isinstance(v, tuple) and len(v) == 2 and all(isinstance(x, int) for x in v) and 1 <= v[0] < v[1]
                else: ok = isinstance(v, tuple) and len(v) == 2 and 0 < v[0] < v[1]
                if not ok: bad.append((sg, a, v))
            for a in ("clkin_freq_range", "clko_freq_range"):
                v = getattr(pll, a, None)
                if not (isinstance(v, tuple) and len(v) == 2 and 0 <= v[0] < v[1]): bad.append((sg, a, v))
        out.append(res(f"ens.tables[{clsname}: {','.join(reads)} x {len(INTEL_GRADES[clsname])} speed grades]", "pysym", PROVED if not bad else VIOLATED, 0, "executed (finite table)", info=str(bad[:3])))
    return dict(results=out, functions=[M + f"{c.__module__.split('.')[-1]}.{n}.__init__ (range tables)" for n, c in INTEL.items()])

def _intel_exists(pll, fin, outs):
    """independent search: for every (n, m) inside the ranges only the C counters next to vco/f can meet the request"""
    for n in range(*pll.n_div_range):
        pfd = fin / n
        if not (pll.clkin_pfd_freq_range[0] <= pfd <= pll.clkin_pfd_freq_range[1]): continue
        for m in range(*pll.m_div_range):
            vco = fin * m / n
            if not (pll.vco_freq_range[0] * (1 + pll.vco_margin) <= vco <= pll.vco_freq_range[1] * (1 - pll.vco_margin)): continue
            if all(any(pll.c_div_range[0] <= c < pll.c_div_range[1] and abs(vco / c - f) <= f * mg for c in (int(vco // f) - 1, int(vco // f), int(vco // f) + 1, int(vco // f) + 2)) for (f, ph, mg) in outs): return (n, m)
    return None

def c_intel_instance():
    """ALTPLL instance parameters against the returned configuration, frequencies recomputed from them, completeness (bounded)"""
    out = []; evals = 0; bad = []; badm = []; badc = []
    reqs = [(50e6, [(100e6, 0, 1e-2), (100e6, 90, 1e-2)]), (50e6, [(143e6, 0, 1e-2)]), (12e6, [(48e6, 0, 1e-3), (96e6, 180, 1e-3), (12e6, 0, 1e-3)]), (125e6, [(33.333e6, 0, 1e-4)]),
            (5e6, [(472e6, 0, 1e-3)]), (100e6, [(1e3, 0, 1e-2)]), (27e6, [(74.25e6, 0, 0), (148.5e6, 0, 0)]), (48e6, [(65.537e6, 0, 1e-7)])]
    for clsname, sg in (("CycloneIVPLL", "-6"), ("Max10PLL", "-7"), ("CycloneVPLL", "-C6")):
        for fin, outs in reqs:
            evals += 1
            pll = INTEL[clsname](speedgrade=sg); pll.logger.disabled = True
            pll.register_clkin(Signal(), fin)
            for k, (f, ph, mg) in enumerate(outs): pll.create_clkout(ClockDomain(f"o{k}"), f, phase=ph, margin=mg, with_reset=False)
            try: cfg = pll.compute_config()
            except ValueError: cfg = None
            ex = _intel_exists(pll, fin, outs)
            if cfg is None and ex is not None: badc.append((clsname, fin, outs, f"refused although n={ex[0]} m={ex[1]} satisfies it"))
            if cfg is not None and ex is None: badc.append((clsname, fin, outs, "returned although the independent search finds nothing"))
            if cfg is None: continue
            try:
                pll.do_finalize(); p = pll.params
                ok = p["p_INCLK0_INPUT_FREQUENCY"] == int(1e12 / fin)
                for k, (f, ph, mg) in enumerate(outs):
                    ok = ok and p[f"p_CLK{k}_DIVIDE_BY"] == cfg[f"clk{k}_divide"] and p[f"p_CLK{k}_MULTIPLY_BY"] == cfg["m"] and cfg[f"clk{k}_phase"] == ph
                    fo = fin * p[f"p_CLK{k}_MULTIPLY_BY"] / p[f"p_CLK{k}_DIVIDE_BY"]
                    ok = ok and p[f"p_CLK{k}_PHASE_SHIFT"] == int(1e12 / fo * ph / 360)
                    if abs(fo - f) > f * mg * (1 + 1e-9): badm.append((clsname, fin, outs, k, fo))
                if not ok: bad.append((clsname, fin, outs))
            except Exception as e: bad.append((clsname, fin, outs, f"{type(e).__name__}: {e}"))
    out.append(res(f"ens.instance[Intel ALTPLL, 3 classes x {len(reqs)} requests]", "bounded", BOUNDED_OK if not bad else VIOLATED, 0, "executed; Instance parameters compared with compute_config()", evaluations=evals, info=str(bad[:2])))
    out.append(res(f"ens.instance.meets[Intel ALTPLL, 3 classes x {len(reqs)} requests]", "bounded", BOUNDED_OK if not badm else VIOLATED, 0, "executed; frequencies recomputed from MULTIPLY_BY/DIVIDE_BY", evaluations=evals, info=str(badm[:2])))
    out.append(res(f"ens.complete[Intel ALTPLL, 3 classes x {len(reqs)} requests]", "bounded", BOUNDED_OK if not badc else VIOLATED, 0, "independent search", evaluations=evals, info=str(badc[:2])))
    return dict(results=out, functions=[M + "intel_common.IntelClocking.do_finalize (bounded)", M + "intel_common.IntelClocking.compute_config (completeness, bounded)"],
                samples=[dict(bounded="Intel instance parameters and completeness", evaluations=evals)])

# ------------------------------------------------------------------------------------------------------------- GW5APLL (best of)
# declared ranges of the PLLA/PLL primitive as stated by the helper itself (loop bounds and the parameter comments of do_finalize)
GW5A_RANGES = dict(idiv=(1, 64 + 1), fdiv=(1, 64 + 1), mdiv=(2, 128 + 1), odiv=(1, 128 + 1))
GW5A_FINDINGS = {"finding.ranges.odiv": "GW5APLL.compute_config takes odiv = round(vco/f) without checking it against the output divider range 1-128 of the primitive ('Static ODIV value (1-128)'): e.g. clkin 50 MHz, out 5 MHz gives ODIV0_SEL = 160"}
GW5A_DEVICES = [("GW5A-25A", "GW5A-LV25MG121NES"), ("GW5AT-60", "GW5AT-LV60PG484AC1/I0"), ("GW5AST-138", "GW5AST-LV138FPG676AES")]

def c_gw5a(device, nout):
    t0 = time.time(); cls = gowin_gw5a.GW5APLL
    def run(ctx):
        pll = cls("dev", device); pll.logger.disabled = True
        fin = SymReal(z3.Real("fin")); ctx.assume(fin > 0)
        pll.clkin_freq = fin
        reqs = []
        for k in range(nout):
            f = SymReal(z3.Real(f"f{k}")); m = SymReal(z3.Real(f"m{k}")); ctx.assume(f > 0); ctx.assume(m >= 0)
            ctx.assume(f < 2 * pll.vco_freq_range[0])              # legal request: below twice the VCO minimum (then round(vco/f) >= 1; natively f >= 2*vco raises ZeroDivisionError)
            pll.clkouts[k] = (Signal(), f, 0, m); reqs.append((f, m))
        pll.nclkouts = nout
        abstract = set(); keep = []
        vmin, vmax = pll.vco_freq_range
        def post(cfg):
            for key in ["idiv", "fdiv", "mdiv"] + [f"odiv{k}" for k in range(nout)]:
                if key not in cfg: return [("defined." + key, z3.BoolVal(False))]
            i, fd, md = cfg["idiv"], cfg["fdiv"], cfg["mdiv"]
            pfd = _r(fin) / _r(i); vco = pfd * _r(fd) * _r(md)
            cj = [("ranges.idiv", _member(i, GW5A_RANGES["idiv"])), ("ranges.fdiv", _member(fd, GW5A_RANGES["fdiv"])), ("ranges.mdiv", _member(md, GW5A_RANGES["mdiv"])),
                  ("ranges.pfd", z3.And(pfd >= pll.pfd_freq_range[0], pfd <= pll.pfd_freq_range[1])),
                  ("ranges.vco", z3.And(vco >= vmin * (1 + pll.vco_margin), vco <= vmax * (1 - pll.vco_margin)))]
            for k, (f, mg) in enumerate(reqs):
                od = cfg[f"odiv{k}"]
                cj.append((f"ranges.odiv{k}>=1", z3.And(_r(od) >= 1, z3.IsInt(_r(od)))))
                cj.append((f"finding.ranges.odiv{k}<=128", _r(od) < GW5A_RANGES["odiv"][1]))
                cj.append((f"meets{k}", _within(vco / _r(od), f, mg)))
            return cj
        def abstract_member(vc):
            cfg = dict(idiv=vc.fresh("int", "idiv_a"), fdiv=vc.fresh("int", "fdiv_a"), mdiv=vc.fresh("int", "mdiv_a"))
            cfg["vco"] = fin / cfg["idiv"] * cfg["fdiv"] * cfg["mdiv"]
            for k in range(nout):
                cfg[f"odiv{k}"] = vc.fresh("int", f"odiv_a{k}"); cfg[f"diff{k}"] = vc.fresh("real", f"diff_a{k}"); cfg[f"pe{k}"] = 0; cfg[f"pe{k}_fine"] = 0
            for nm, t in post(cfg):
                if "finding." not in nm: ctx.assume(_rb(t))
            abstract.add(id(cfg)); keep.append(cfg); return cfg
        # the loop bodies only append to `configs` (frame, checked on the AST by _only_appended): an arbitrary iteration may start from the
        # actual collection; the collection is replaced by its abstraction (no member / one arbitrary member of the invariant) when the outermost loop is left
        box = {}
        def enter(vc, L): box["configs"] = L["configs"]; leave(vc, L, "init")
        def exit0(vc):
            cs = box["configs"]; del cs[:]
            if bool(SymBool(z3.Bool(f"nonempty!{vc._n()}"))): cs.append(abstract_member(vc))
        def leave(vc, L, what):
            for cfg in L["configs"]:
                if id(cfg) in abstract: continue
                for nm, t in post(cfg): vc.prove(f"inv.member.{nm}", t)
        def rng(name, lo, hi): return lambda vc, it, L: _in_range(ctx, vc, name, lo, hi)
        nop = lambda vc, L, *a: None
        vc = VCX({0: dict(enter=enter, leave=nop, exit=exit0, elem=rng("idiv", 1, 64)), 1: dict(enter=nop, leave=nop, elem=rng("fdiv", 1, 64)), 2: dict(enter=nop, leave=leave, elem=rng("mdiv", 2, 128))})
        fn, src = rewrite(cls.compute_config, vc.specs, vc, extra_globals=dict(abs=_abs_split, round=_round_c(vc, ctx), int=_int_c(vc, ctx)))
        try:
            cfg = fn(pll)
        except ValueError:
            return _vc_obl(vc)
        obl = _vc_obl(vc)
        obl.append(("ens.returned-is-member", z3.BoolVal(id(cfg) in abstract)))
        obl += [("ens." + nm, t) for nm, t in post(cfg)]
        return obl
    ok_loops, why = _loops_are(cls.compute_config, {0: "range(1, 64)", 1: "range(1, 64)", 2: "range(2, 128)"})
    if ok_loops: ok_loops, why = _only_appended(cls.compute_config, "configs", 3)
    if not ok_loops: return dict(results=[res("GW5APLL.compute_config.loops", "pysym", UNKNOWN, 0, "", info=why)], functions=[])
    paths, results = explore(run)
    out = _mark_findings(_collect(f"GW5APLL({device.split('-')[0]},nout={nout}).compute_config", paths, results, t0), GW5A_FINDINGS)
    return dict(results=out, functions=[M + "gowin_gw5a.GW5APLL.compute_config", M + "gowin_gw5a.GW5APLL.get_vco_freq_range/get_pfd_freq_range (tables)"],
                samples=[dict(function="GW5APLL.compute_config", paths=paths, inputs="symbolic real clkin_freq, output frequencies and margins; phase 0")])

def _only_appended(fn, name, nloops):
    """frame of a best-of search: inside the first `nloops` (nested) search loops the collection `name` is only appended to
    (`name += [..]`, `name.append(..)`) and never read"""
    tree = ast.parse(textwrap.dedent(inspect.getsource(fn)))
    outer = [n for n in ast.walk(tree) if isinstance(n, ast.For)][0]
    allowed = set()
    for n in ast.walk(outer):
        if isinstance(n, ast.AugAssign) and isinstance(n.target, ast.Name) and n.target.id == name and isinstance(n.op, ast.Add): allowed.add(id(n.target))
        if isinstance(n, ast.Call) and isinstance(n.func, ast.Attribute) and n.func.attr == "append" and isinstance(n.func.value, ast.Name) and n.func.value.id == name: allowed.add(id(n.func.value))
    for n in ast.walk(outer):
        if isinstance(n, ast.Name) and n.id == name and id(n) not in allowed: return False, f"`{name}` is used inside the search loops other than by appending (line {n.lineno})"
    return True, ""

def _loops_are(fn, expect):
    """the iterables of the cut loops are the literal ranges the contract havocs over (checked on the current source)"""
    tree = ast.parse(textwrap.dedent(inspect.getsource(fn)))
    class V(ast.NodeVisitor):
        def __init__(s): s.n = -1; s.found = {}
        def visit_For(s, node):
            s.n += 1; s.found[s.n] = ast.unparse(node.iter); s.generic_visit(node)
    v = V(); v.visit(tree)
    for lid, text in expect.items():
        if v.found.get(lid) != text: return False, f"loop {lid} iterates over {v.found.get(lid)!r}, contract expects {text!r}"
    return True, ""

# ------------------------------------------------------------------------------------------------- GW1NPLL / GW2APLL (best of)
# declared ranges of the rPLL/PLLVR primitive as stated by the helper (loop bounds, parameter comments of do_finalize, its error message)
GW1N_RANGES = dict(idiv=(1, 64 + 1), fdiv=(1, 64 + 1), odiv=[2, 4, 8, 16, 32, 48, 64, 80, 96, 112, 128], sdiv=(2, 128 + 1))
GW1N_DEVICES = {"GW1N": (gowin_gw1n.GW1NPLL, "GW1NR-LV9QN88PC6/I5"), "GW1NS": (gowin_gw1n.GW1NPLL, "GW1NSR-LV4CQN48PC7/I6"), "GW1N-1S": (gowin_gw1n.GW1NPLL, "GW1N-1S-LV1CS30C6/I5"),
                "GW2A": (gowin_gw2a.GW2APLL, "GW2A-LV18PG256C8/I7")}
GW1N_FINDINGS = {
    "finding.meets": "GW1NPLL.compute_config checks every output that is not the reference output against margin * OBTAINED frequency (diff_f > r_freq*margin) instead of margin * requested frequency: an output up to 1/(1-margin) times the stated margin above its request is accepted (e.g. clkin 100 MHz, outputs 100 MHz and 49.5 MHz, margin 1e-2: CLKOUTD = 50 MHz, 1.0101 % above 49.5 MHz)",
    "finding.ranges.sdiv": "GW1NPLL.compute_config never checks the CLKOUTD divider against the declared range 'an even divisor between 2 and 128': e.g. outputs 100 MHz and 0.5 MHz give DYN_SDIV_SEL = 200",
    "finding.connected": "GW1NPLL.compute_config maps every output with divider 1 and phase 0 to the single CLKOUT pin (config.update overwrites the entry): of two requested outputs with the same frequency only the last one is connected to the primitive, the first clock domain is left undriven (e.g. two 50 MHz outputs)",
    "finding.no-crash": "GW1NPLL.compute_config selects the reference ('highest') output with max(..., key=margin) - the output with the LARGEST MARGIN (the first one when margins are equal), not the highest frequency: when a faster output is requested after it the divider floor(freq_max/f) is 0 and compute_config raises ZeroDivisionError (or refuses) although the request is satisfiable in the other order (e.g. 25 MHz then 50 MHz from 25 MHz)",
}

class _DivZero:
    """while active, true division by a symbolic value follows Python: a divisor that can be 0 raises ZeroDivisionError on that path;
    floor division of symbolic reals is floor (loopcut's SymReal inherits an integer-only `//`)"""
    def __enter__(self):
        self.saved = (SymReal.__dict__.get("__truediv__"), SymInt.__truediv__, SymReal.__dict__.get("__floordiv__"), SymInt.__floordiv__)
        def chk(o):
            if isinstance(o, SymInt) and bool(SymBool(_r(o) == 0)): raise ZeroDivisionError("division by zero")
        def tdiv(self_, o): chk(o); return SymReal(_r(self_) / _r(o))
        def fdiv(self_, o):
            chk(o); ctx = symx.CTX; q = _r(self_) / _r(o)
            cache = ctx.__dict__.setdefault("floordiv_cache", {})          # // is a function: the same operands give the same integer on a path
            if q.get_id() in cache: return cache[q.get_id()][1]
            CtxU.fresh += 1
            k = SymInt(z3.Int(f"floordiv!{CtxU.fresh}"))
            ctx.assume(_rb(_r(k) <= q)); ctx.assume(_rb(q < _r(k) + 1)); cache[q.get_id()] = (q, k); return k
        SymReal.__truediv__ = tdiv; SymInt.__truediv__ = tdiv; SymReal.__floordiv__ = fdiv; SymInt.__floordiv__ = fdiv
    def __exit__(self, *a):
        if self.saved[0] is not None: SymReal.__truediv__ = self.saved[0]
        SymInt.__truediv__ = self.saved[1]; SymInt.__floordiv__ = self.saved[3]
        if self.saved[2] is not None: SymReal.__floordiv__ = self.saved[2]
        else: del SymReal.__floordiv__
CtxU.fresh = 0

def c_gw1n(devkey, nout, sym_vco_margin=False):
    t0 = time.time(); cls, device = GW1N_DEVICES[devkey]
    fnc = cls.compute_config
    ok, why = _loops_are(fnc, {0: "range(1, 64)", 1: "range(1, 64)", 2: "[2, 4, 8, 16, 32, 48, 64, 80, 96, 112, 128]"})
    if ok: ok, why = _only_appended(fnc, "configs", 3)
    if not ok: return dict(results=[res("GW1NPLL.compute_config.loops", "pysym", UNKNOWN, 0, "", info=why)], functions=[])
    def run(ctx):
        pll = cls("dev", device); pll.logger.disabled = True
        if sym_vco_margin:          # the constructor option vco_margin: ANY guard band 0 <= vm < 1 (the VCO window shrinks at both ends)
            vm = SymReal(z3.Real("vco_margin")); ctx.assume(vm >= 0); ctx.assume(vm < 1); pll.vco_margin = vm
        fin = SymReal(z3.Real("fin")); ctx.assume(fin > 0)
        pll.clkin_freq = fin
        reqs = []
        for k in range(nout):
            f = SymReal(z3.Real(f"f{k}")); m = SymReal(z3.Real(f"m{k}")); ctx.assume(f > 0); ctx.assume(m >= 0); ctx.assume(m < 1)
            pll.clkouts[k] = (Signal(), f, 0, m); reqs.append((f, m))
        pll.nclkouts = nout
        abstract = set(); keep = []; box = {}
        vmin, vmax = pll.vco_freq_range
        def post(cfg):
            """invariant of the candidate collection (the reference output `freq_max` with margin `m` is what the search loops use)"""
            i, fd, od = cfg["idiv"], cfg["fdiv"], cfg["odiv"]
            pfd = _r(fin) / _r(i); clkout = pfd * _r(fd); vco = clkout * _r(od)
            return [("ranges.idiv", _member(i, GW1N_RANGES["idiv"])), ("ranges.fdiv", _member(fd, GW1N_RANGES["fdiv"])),
                    ("ranges.odiv", z3.Or(*[_r(od) == v for v in GW1N_RANGES["odiv"]])),
                    ("ranges.pfd", z3.And(pfd >= pll.pfd_freq_range[0], pfd <= pll.pfd_freq_range[1])),
                    ("ranges.vco", z3.And(vco >= _r(vmin * (1 + pll.vco_margin)), vco <= _r(vmax * (1 - pll.vco_margin)))),
                    ("meets.reference", _within(clkout, box["freq_max"], box["m"]))]
        def abstract_member(vc):
            cfg = dict(idiv=vc.fresh("int", "idiv_a"), fdiv=vc.fresh("int", "fdiv_a"), odiv=vc.fresh("int", "odiv_a"), diff=vc.fresh("real", "diff_a"))
            for nm, t in post(cfg): ctx.assume(_rb(t))
            cfg["vco"] = SymReal(_r(fin) * _r(cfg["fdiv"]) / _r(cfg["idiv"]) * _r(cfg["odiv"]))
            abstract.add(id(cfg)); keep.append(cfg); return cfg
        def enter(vc, L): box.update(configs=L["configs"], freq_max=L["freq_max"], m=L["m"])
        def exit0(vc):
            cs = box["configs"]; del cs[:]
            if bool(SymBool(z3.Bool(f"nonempty!{vc._n()}"))): cs.append(abstract_member(vc))
        def leave(vc, L, what):
            for cfg in L["configs"]:
                if id(cfg) in abstract: continue
                for nm, t in post(cfg): vc.prove(f"inv.member.{nm}", t)
        def rng(name, lo, hi): return lambda vc, it, L: _in_range(ctx, vc, name, lo, hi)
        def el_odiv(vc, it, L):
            x = vc.fresh("int", "odiv"); ctx.assume(_rb(z3.Or(*[x.t == v for v in GW1N_RANGES["odiv"]]))); return x
        nop = lambda vc, L, *a: None
        vc = VCX({0: dict(enter=enter, leave=nop, exit=exit0, elem=rng("idiv", 1, 64)), 1: dict(enter=nop, leave=nop, elem=rng("fdiv", 1, 64)), 2: dict(enter=nop, leave=leave, elem=el_odiv)})
        fn, src = rewrite(fnc, vc.specs, vc, extra_globals=dict(abs=_abs_split, int=_int_c(vc, ctx)))
        try:
            with _DivZero(): cfg = fn(pll)
        except ValueError:
            return _vc_obl(vc)
        except ZeroDivisionError:
            return _vc_obl(vc) + [("finding.no-crash.ZeroDivisionError", z3.BoolVal(False))]
        obl = _vc_obl(vc)
        obl.append(("ens.returned-is-member", z3.BoolVal(id(cfg) in abstract)))
        obl += [("ens." + nm, t) for nm, t in post(cfg) if nm != "meets.reference"]
        clkout = _r(fin) * _r(cfg["fdiv"]) / _r(cfg["idiv"])
        sd = cfg["SDIV_SEL"]
        obl.append(("ens.ranges.sdiv.even>=2", z3.And(sd.t >= 2, sd.t % 2 == 0) if isinstance(sd, SymInt) else z3.BoolVal(isinstance(sd, int) and sd >= 2 and sd % 2 == 0)))
        obl.append(("finding.ranges.sdiv<=128", _r(sd) < GW1N_RANGES["sdiv"][1]))
        for k, (f, mg) in enumerate(reqs):
            clk = pll.clkouts[k][0]
            keys = [key for key in ("CLKOUT", "CLKOUTP", "CLKOUTD", "CLKOUTD3") if cfg.get(key) is clk]
            if len(keys) != 1: obl.append((f"finding.connected{k}", z3.BoolVal(False))); continue
            obl.append((f"finding.connected{k}", z3.BoolVal(True)))
            div = {"CLKOUT": 1, "CLKOUTP": 1, "CLKOUTD3": 3, "CLKOUTD": sd}[keys[0]]
            fo = clkout / _r(div)                                              # recomputed from FBDIV/IDIV and the divider of the primitive output the clock is connected to
            if f is box["freq_max"]: obl.append((f"ens.meets{k}", _within(fo, f, mg)))
            else:
                obl.append((f"ens.meets{k}.relative-to-obtained", z3.And(fo - f.t <= fo * mg.t, f.t - fo <= fo * mg.t)))      # what the code enforces
                obl.append((f"finding.meets.non-reference{k}", _within(fo, f, mg)))                                       # what the property asks
        return obl
    paths, results = explore(run)
    out = _mark_findings(_collect(f"{cls.__name__}({devkey},nout={nout}).compute_config", paths, results, t0), GW1N_FINDINGS)
    return dict(results=out, functions=[M + "gowin_gw1n.GW1NPLL.compute_config", M + f"{cls.__module__.split('.')[-1]}.{cls.__name__}.get_vco_freq_range/get_pfd_freq_range (tables)"],
                samples=[dict(function=f"{cls.__name__}.compute_config", paths=paths, inputs="symbolic real clkin_freq, output frequencies and margins (< 1); phase 0")])

# ---------------------------------------------------------------------------------------------------------- USPMMCM (first fit)
USP_FINDINGS = {"finding.meets": "USPMMCM.compute_config accepts a divider with math.isclose(clk_freq, f, rel_tol=m), i.e. |clk_freq - f| <= m * max(clk_freq, f) (the stated test `abs(clk_freq - f) <= f * m` is commented out): an output up to 1/(1-m) times the stated margin above the request is returned (e.g. clkin 101.005 MHz, out 100 MHz margin 1e-2: 101.005 MHz)"}
def _frame_check_usp(fn):
    """frame of the cut divider loop: [clk_freq = ...; if not <close>: continue; <assignments>; break] - an iteration that does not leave the loop assigns clk_freq only"""
    tree = ast.parse(textwrap.dedent(inspect.getsource(fn)))
    loops = [n for n in ast.walk(tree) if isinstance(n, ast.For) and isinstance(n.target, ast.Name) and n.target.id == "d"]
    if len(loops) != 1: return False, f"expected one 'for d' loop, found {len(loops)}"
    b = loops[0].body
    if not (isinstance(b[0], ast.Assign) and isinstance(b[0].targets[0], ast.Name) and b[0].targets[0].id == "clk_freq"): return False, "first statement of the divider loop is not 'clk_freq = ...'"
    if not (isinstance(b[1], ast.If) and len(b[1].body) == 1 and isinstance(b[1].body[0], ast.Continue) and not b[1].orelse): return False, "second statement is not 'if ...: continue'"
    if not isinstance(b[-1], ast.Break) or any(not isinstance(x, ast.Assign) for x in b[2:-1]): return False, "the accepting part is not [assignments; break]"
    return True, ""

def c_uspmmcm(speedgrade, nout):
    cls = xilinx_usp.USPMMCM; t0 = time.time()
    if cls.compute_config is XilinxClocking.compute_config:
        return dict(results=[res("USPMMCM.compute_config", "pysym", UNKNOWN, 0, "", info="USPMMCM no longer overrides compute_config: covered by C20_clocks.c_xilinx")], functions=[])
    ok, why = _frame_check_usp(cls.compute_config)
    if ok: ok, why = _loops_are(cls.compute_config, {0: "range(*self.divclk_divide_range)", 1: "reversed(clkfbout_mult_f_values)", 3: "dividers"})
    src_txt = inspect.getsource(cls.compute_config)
    if ok and src_txt.count("[x / 8 for x in range(16, 1025)]") != 2: ok, why = False, "the fractional value lists are not [x / 8 for x in range(16, 1025)]"
    if not ok: return dict(results=[res("USPMMCM.compute_config.frame", "pysym", UNKNOWN, 0, "", info=why)], functions=[])
    def eighth(ctx, vc, name):
        k = vc.fresh("int", name + "_x8"); ctx.assume(k >= 16); ctx.assume(k < 1025); return SymReal(z3.ToReal(k.t) / 8)
    def is_eighth(x): return z3.And(_r(x) >= 2, _r(x) <= 128, z3.IsInt(_r(x) * 8))
    def run(ctx):
        pll = cls(speedgrade=speedgrade); pll.logger.disabled = True
        def el_d(vc, it, L):
            n = L["n"]
            if n == 0: return eighth(ctx, vc, "d0")
            alt = getattr(pll, f"clkout{n}_divide_range", None)
            if alt and bool(SymBool(z3.Bool(f"specific!{vc._n()}"))): return _in_range(ctx, vc, "d", *alt)
            return _in_range(ctx, vc, "d", *pll.clkout_divide_range)
        vc = VC({0: dict(elem=lambda vc, it, L: _in_range(ctx, vc, "D", *pll.divclk_divide_range)), 1: dict(elem=lambda vc, it, L: eighth(ctx, vc, "M")), 3: dict(elem=el_d)})
        def isclose(a, b, rel_tol=1e-9, abs_tol=0.0):
            a_, b_, m_ = _r(a), _r(b), _r(rel_tol)              # both frequencies are positive here
            return SymBool(z3.Or(z3.And(a_ >= b_, a_ - b_ <= m_ * a_), z3.And(b_ > a_, b_ - a_ <= m_ * b_)))
        import types
        fn, src = rewrite(cls.compute_config, vc.specs, vc, extra_globals=dict(_nolog, math=types.SimpleNamespace(isclose=isclose)))
        fin = SymReal(z3.Real("fin")); ctx.assume(fin >= pll.clkin_freq_range[0]); ctx.assume(fin <= pll.clkin_freq_range[1])
        pll.clkin_freq = fin
        reqs = []
        for n in range(nout):
            f = SymReal(z3.Real(f"f{n}")); m = SymReal(z3.Real(f"m{n}")); ctx.assume(f > 0); ctx.assume(m >= 0); ctx.assume(m < 1)
            pll.clkouts[n] = (Signal(), f, 0, m); reqs.append((f, m))
        pll.nclkouts = nout
        try:
            cfg = fn(pll)
        except ValueError:
            return _vc_obl(vc)
        obl = _vc_obl(vc)
        D, Mu = cfg["divclk_divide"], cfg["clkfbout_mult"]
        vco = _r(fin) * _r(Mu) / _r(D); vmin, vmax = pll.vco_freq_range
        obl.append(("ens.ranges.vco", z3.And(vco >= vmin * (1 + pll.vco_margin), vco <= vmax * (1 - pll.vco_margin))))
        obl.append(("ens.ranges.D", _member(D, pll.divclk_divide_range)))
        obl.append(("ens.ranges.M[2..128 step 1/8]", is_eighth(Mu)))
        for n, (f, m) in enumerate(reqs):
            d = cfg[f"clkout{n}_divide"]; fo = vco / _r(d)
            obl.append((f"ens.meets{n}.isclose", z3.Or(z3.And(fo >= f.t, fo - f.t <= m.t * fo), z3.And(f.t > fo, f.t - fo <= m.t * f.t))))      # what the code enforces
            obl.append((f"finding.meets{n}.stated-margin", _within(fo, f, m)))                                                      # what the property asks
            if n == 0: obl.append(("ens.ranges.d0[2..128 step 1/8]", is_eighth(d)))
            else:
                rg = _member(d, pll.clkout_divide_range); alt = getattr(pll, f"clkout{n}_divide_range", None)
                obl.append((f"ens.ranges.d{n}", z3.Or(rg, _member(d, alt)) if alt else rg))
        return obl
    paths, results = explore(run)
    out = _mark_findings(_collect(f"USPMMCM(sg={speedgrade},nout={nout}).compute_config", paths, results, t0), USP_FINDINGS)
    return dict(results=out, functions=[M + "xilinx_usp.USPMMCM.compute_config", M + "xilinx_usp.USPMMCM.__init__ (range tables)"],
                samples=[dict(function="USPMMCM.compute_config", paths=paths, inputs="symbolic real clkin_freq in clkin_freq_range, output frequencies and margins (< 1)")])

# ------------------------------------------------------------------------------------------------------ bounded: Gowin GW1N / GW2A
def _gw1n_mk(devkey, fin, outs):
    cls, device = GW1N_DEVICES[devkey]
    pll = cls("dev", device); pll.logger.disabled = True
    pll.register_clkin(Signal(), fin)
    for k, (f, ph, mg) in enumerate(outs): pll.create_clkout(ClockDomain(f"o{k}"), f, phase=ph, margin=mg, with_reset=False)
    return pll

def _gw1n_exists(pll, fmax, mg, full=True):
    """independent search for the reference output over the declared ranges (full: IDIV/FBDIV 1..64 as the parameter comments state)"""
    hi = 65 if full else 64
    for i in range(1, hi):
        pfd = pll.clkin_freq / i
        if not (pll.pfd_freq_range[0] <= pfd <= pll.pfd_freq_range[1]): continue
        for fd in range(1, hi):
            co = pfd * fd
            if abs(co - fmax) > fmax * mg: continue
            if any(pll.vco_freq_range[0] * (1 + pll.vco_margin) <= co * od <= pll.vco_freq_range[1] * (1 - pll.vco_margin) for od in GW1N_RANGES["odiv"]): return (i, fd)
    return None

def c_gw1n_bounded():
    """GW1NPLL/GW2APLL on enumerated requests (highest frequency first, equal margins, exact divider ratios): ranges and frequencies recomputed
    from the EMITTED instance parameters, instance parameters against the configuration, completeness; native witnesses of the findings"""
    out = []; evals = 0; bad = []; badi = []; badc = []; band = []
    for devkey in ("GW1N", "GW1NS", "GW2A"):
        for fin in (27e6, 50e6, 12e6):
            sets = [[(f, 0, 1e-2)] for f in (27e6, 48e6, 50e6, 100e6, 125e6, 200e6, 400e6, 7e6)]
            sets += [[(fa, 0, 1e-2), (fa / r, ph, 1e-2)] for fa in (48e6, 100e6, 150e6) for r, ph in ((2, 0), (3, 0), (4, 0), (1, 90), (8, 0))]
            sets += [[(120e6, 0, 1e-2), (40e6, 0, 1e-2), (30e6, 0, 1e-2)], [(96e6, 0, 1e-3), (96e6, 180, 1e-3), (48e6, 0, 1e-3)]]
            for outs in sets:
                evals += 1
                pll = _gw1n_mk(devkey, fin, outs)
                try: cfg = pll.compute_config()
                except ValueError: cfg = None
                except Exception as e: bad.append((devkey, fin, outs, f"{type(e).__name__}: {e}")); continue
                ex = _gw1n_exists(pll, outs[0][0], outs[0][2], full=False)
                if cfg is None and ex is not None:
                    # refusals explained by the margin finding (reference output inside margin*requested but outside margin*obtained) are listed under that finding
                    ex2 = _gw1n_exists(pll, outs[0][0], outs[0][2] / (1 + outs[0][2]) * (1 - 1e-9), full=False)
                    (badc if ex2 is not None else band).append((devkey, fin, outs, f"refused although idiv={ex[0]} fdiv={ex[1]} gives the reference output within the stated margin"))
                if cfg is None: continue
                try:
                    pll.do_finalize(); p = pll.params
                    if not (p["p_IDIV_SEL"] == cfg["idiv"] - 1 and p["p_FBDIV_SEL"] == cfg["fdiv"] - 1 and p["p_ODIV_SEL"] == cfg["odiv"] and p["p_DYN_SDIV_SEL"] == cfg["SDIV_SEL"]
                            and p["p_PSDA_SEL"] == cfg["PSDA_SEL"] and p["p_FCLKIN"] == str(fin / 1e6)): badi.append((devkey, fin, outs))
                    idiv, fdiv, odiv, sdiv = p["p_IDIV_SEL"] + 1, p["p_FBDIV_SEL"] + 1, p["p_ODIV_SEL"], p["p_DYN_SDIV_SEL"]
                    pfd = fin / idiv; co = pfd * fdiv; vco = co * odiv
                    ok = 1 <= idiv <= 64 and 1 <= fdiv <= 64 and odiv in GW1N_RANGES["odiv"] and 2 <= sdiv <= 128 and sdiv % 2 == 0
                    ok = ok and pll.pfd_freq_range[0] <= pfd <= pll.pfd_freq_range[1] and pll.vco_freq_range[0] <= vco <= pll.vco_freq_range[1]
                    for k, (f, ph, mg) in enumerate(outs):
                        pins = [pin for pin in ("CLKOUT", "CLKOUTP", "CLKOUTD", "CLKOUTD3") if p[f"o_{pin}"] is pll.clkouts[k][0]]
                        if len(pins) != 1: ok = False; continue
                        fo = co / {"CLKOUT": 1, "CLKOUTP": 1, "CLKOUTD": sdiv, "CLKOUTD3": 3}[pins[0]]
                        ok = ok and abs(fo - f) <= f * mg * (1 + 1e-9)
                    if not ok: bad.append((devkey, fin, outs, dict(idiv=idiv, fdiv=fdiv, odiv=odiv, sdiv=sdiv)))
                except Exception as e: badi.append((devkey, fin, outs, f"{type(e).__name__}: {e}"))
    out.append(res(f"ens.ranges+meets[GW1NPLL/GW2APLL, {evals} requests, from the emitted parameters]", "bounded", BOUNDED_OK if not bad else VIOLATED, 0, "executed", evaluations=evals, info=str(bad[:2])))
    out.append(res(f"ens.instance[GW1NPLL/GW2APLL, {evals} requests]", "bounded", BOUNDED_OK if not badi else VIOLATED, 0, "executed; Instance parameters compared with compute_config()", evaluations=evals, info=str(badi[:2])))
    out.append(res(f"ens.complete[GW1NPLL/GW2APLL, {evals} requests, IDIV/FBDIV 1..63 as searched]", "bounded", BOUNDED_OK if not badc else VIOLATED, 0, "independent exhaustive search", evaluations=evals, info=str(badc[:2])))
    out.append(res(f"finding.meets.refused-in-band[GW1NPLL/GW2APLL, {evals} requests]", "finding-witness", PROVED if not band else VIOLATED, 0, "independent exhaustive search", info=str(band[:2]),
                   what=GW1N_FINDINGS["finding.meets"] + "; conversely a reference output below its request by more than margin*obtained but within margin*requested is refused (clkin 12 MHz, out 400 MHz margin 1e-2: 396 MHz refused)"))
    # ---- native witnesses of the GW1NPLL findings (each: the real helper on a concrete request)
    def native(name, what, devkey, fin, outs, judge):
        pll = _gw1n_mk(devkey, fin, outs)
        try: cfg = pll.compute_config(); r_ = judge(pll, cfg, None)
        except Exception as e: r_ = judge(pll, None, e)
        okk, info = r_
        out.append(res(name, "finding-witness", PROVED if okk else VIOLATED, 0, "executed", info=info, what=what))
    def j_margin(pll, cfg, e):
        if cfg is None: return True, f"refused/raised: {e!r}"
        fo = pll.clkin_freq * cfg["fdiv"] / cfg["idiv"] / cfg["SDIV_SEL"]; f, mg = pll.clkouts[1][1], pll.clkouts[1][3]
        return abs(fo - f) <= f * mg, f"CLKOUTD={fo/1e6:g}MHz for {f/1e6:g}MHz: off by {abs(fo-f)/f*100:.4f}% (margin {mg*100:g}%)"
    native("finding.meets.native[GW1NPLL clkin=100MHz,outs=100MHz+49.502MHz,margin=1e-2]", GW1N_FINDINGS["finding.meets"], "GW1N", 100e6, [(100e6, 0, 1e-2), (49.502e6, 0, 1e-2)], j_margin)
    def j_sdiv(pll, cfg, e):
        if cfg is None: return True, f"refused/raised: {e!r}"
        return 2 <= cfg["SDIV_SEL"] <= 128, f"SDIV_SEL={cfg['SDIV_SEL']}"
    native("finding.ranges.sdiv.native[GW1NPLL clkin=100MHz,outs=100MHz+0.5MHz]", GW1N_FINDINGS["finding.ranges.sdiv"], "GW1N", 100e6, [(100e6, 0, 1e-2), (0.5e6, 0, 1e-2)], j_sdiv)
    def j_crash(pll, cfg, e):
        if isinstance(e, ValueError) or cfg is not None:
            ex = _gw1n_exists(pll, max(f for (_, f, _, _) in pll.clkouts.values()), 1e-2)
            return not (cfg is None and ex is not None), ("returned a configuration" if cfg is not None else f"refused ({e}) although idiv={ex[0]} fdiv={ex[1]} serves the highest output and the other is an exact /2")
        return False, f"raised {type(e).__name__}: {e}"
    native("finding.no-crash.native[GW1NPLL clkin=25MHz,outs=25MHz then 50MHz]", GW1N_FINDINGS["finding.no-crash"], "GW1N", 25e6, [(25e6, 0, 1e-2), (50e6, 0, 1e-2)], j_crash)
    native("finding.no-crash.native.refused[GW1NPLL clkin=27MHz,outs=25MHz then 50MHz]", GW1N_FINDINGS["finding.no-crash"], "GW1N", 27e6, [(25e6, 0, 1e-2), (50e6, 0, 1e-2)], j_crash)
    def j_conn(pll, cfg, e):
        if cfg is None: return True, f"refused/raised: {e!r}"
        n = [sum(1 for key in ("CLKOUT", "CLKOUTP", "CLKOUTD", "CLKOUTD3") if cfg.get(key) is pll.clkouts[k][0]) for k in pll.clkouts]
        return all(x == 1 for x in n), f"primitive outputs connected per requested clock: {n}"
    native("finding.connected.native[GW1NPLL clkin=50MHz,outs=50MHz+50MHz]", GW1N_FINDINGS["finding.connected"], "GW1N", 50e6, [(50e6, 0, 1e-2), (50e6, 0, 1e-2)], j_conn)
    def j_fdiv64(pll, cfg, e):
        ex = _gw1n_exists(pll, pll.clkouts[0][1], pll.clkouts[0][3], full=True)
        if cfg is None and isinstance(e, ValueError) and ex is not None: return False, f"refused although idiv={ex[0]} fdiv={ex[1]} (inside the stated 1-64) satisfies it"
        return True, "returned" if cfg is not None else f"{e!r}"
    native("finding.complete.fdiv64.native[GW1NPLL clkin=3MHz,out=192MHz,margin=1e-3]", "GW1NPLL.compute_config searches idiv and fdiv over range(1, 64) although the primitive (and the helper's own parameter comments 'Static IDIV/FBDIV value (1-64)') allow 64: a request that needs FBDIV 64 is refused (clkin 3 MHz, out 192 MHz margin 1e-3: idiv 1, fdiv 64, odiv 4, VCO 768 MHz is inside every range)",
           "GW1N", 3e6, [(192e6, 0, 1e-3)], j_fdiv64)
    return dict(results=out, functions=[M + "gowin_gw1n.GW1NPLL.compute_config/do_finalize (bounded)", M + "gowin_gw2a.GW2APLL (tables; bounded)"],
                samples=[dict(bounded="GW1NPLL/GW2APLL", evaluations=evals)])

# ------------------------------------------------------------------------------------------------------------- bounded: Gowin GW5A
def _gw5a_mk(dev, fin, outs):
    pll = gowin_gw5a.GW5APLL(*dev); pll.logger.disabled = True
    pll.register_clkin(Signal(), fin)
    for k, (f, ph, mg) in enumerate(outs): pll.create_clkout(ClockDomain(f"o{k}"), f, phase=ph, margin=mg, with_reset=False)
    return pll

def c_gw5a_bounded():
    out = []; evals = 0; bad = []; badi = []; badc = []; bad_od = []
    for dev in GW5A_DEVICES:
        for fin in (27e6, 50e6):
            sets = [[(f, 0, 1e-2)] for f in (50e6, 125e6, 400e6, 7e6)] + [[(100e6, 0, 1e-3), (50e6, 90, 1e-3)], [(74.25e6, 0, 1e-4), (371.25e6, 0, 1e-4)], [(48e6, 0, 0), (12.288e6, 0, 1e-6)]]
            for outs in sets:
                evals += 1
                pll = _gw5a_mk(dev, fin, outs)
                try: cfg = pll.compute_config()
                except ValueError: cfg = None
                except Exception as e: bad.append((dev[0], fin, outs, f"{type(e).__name__}: {e}")); continue
                if cfg is None:
                    # independent search over the declared ranges (1-64, 1-64, 2-128, output dividers 1-128)
                    ex = None
                    for i in range(1, 65):
                        pfd = fin / i
                        if not (pll.pfd_freq_range[0] <= pfd <= pll.pfd_freq_range[1]): continue
                        prods = sorted({fd * md for fd in range(1, 65) for md in range(2, 129)})
                        for pr in prods:
                            vco = pfd * pr
                            if not (pll.vco_freq_range[0] <= vco <= pll.vco_freq_range[1]): continue
                            if all(any(1 <= od <= 128 and abs(vco / od - f) <= f * mg for od in (int(vco // f), int(vco // f) + 1)) for (f, ph, mg) in outs): ex = (i, pr); break
                        if ex: break
                    if ex: badc.append((dev[0], fin, outs, f"refused although idiv={ex[0]} fdiv*mdiv={ex[1]} satisfies it"))
                    continue
                try:
                    pll.do_finalize(); p = pll.params
                    okp = p["p_IDIV_SEL"] == cfg["idiv"] and p["p_FBDIV_SEL"] == cfg["fdiv"] and p["p_MDIV_SEL"] == cfg["mdiv"] and p["p_FCLKIN"] == str(fin / 1e6)
                    idiv, fdiv, mdiv = p["p_IDIV_SEL"], p["p_FBDIV_SEL"], p["p_MDIV_SEL"]
                    pfd = fin / idiv; vco = pfd * fdiv * mdiv
                    ok = 1 <= idiv <= 64 and 1 <= fdiv <= 64 and 2 <= mdiv <= 128 and pll.pfd_freq_range[0] <= pfd <= pll.pfd_freq_range[1] and pll.vco_freq_range[0] <= vco <= pll.vco_freq_range[1]
                    for k, (f, ph, mg) in enumerate(outs):
                        okp = okp and p[f"p_ODIV{k}_SEL"] == cfg[f"odiv{k}"] and p[f"p_CLKOUT{k}_EN"] == "TRUE" and p[f"o_CLKOUT{k}"] is pll.clkouts[k][0] \
                              and p[f"p_CLKOUT{k}_PE_COARSE"] == cfg[f"pe{k}"] and p[f"p_CLKOUT{k}_PE_FINE"] == cfg[f"pe{k}_fine"]
                        od = p[f"p_ODIV{k}_SEL"]
                        ok = ok and 1 <= od and abs(vco / od - f) <= f * mg * (1 + 1e-9)
                        if od > 128: bad_od.append((dev[0], fin, (f, ph, mg), f"ODIV{k}_SEL={od}"))
                    if not okp: badi.append((dev[0], fin, outs))
                    if not ok: bad.append((dev[0], fin, outs, {k: v for k, v in cfg.items() if "div" in k}))
                except Exception as e: badi.append((dev[0], fin, outs, f"{type(e).__name__}: {e}"))
    out.append(res(f"ens.ranges+meets[GW5APLL, {evals} requests >= 7 MHz, from the emitted parameters; output divider upper bound under the finding]", "bounded", BOUNDED_OK if not bad else VIOLATED, 0, "executed", evaluations=evals, info=str(bad[:2])))
    out.append(res(f"ens.instance[GW5APLL, {evals} requests]", "bounded", BOUNDED_OK if not badi else VIOLATED, 0, "executed; Instance parameters compared with compute_config()", evaluations=evals, info=str(badi[:2])))
    out.append(res(f"ens.complete[GW5APLL, {evals} requests]", "bounded", BOUNDED_OK if not badc else VIOLATED, 0, "independent exhaustive search", evaluations=evals, info=str(badc[:2])))
    out.append(res(f"finding.ranges.odiv[GW5APLL, {evals} requests >= 7 MHz]", "finding-witness", PROVED if not bad_od else VIOLATED, 0, "executed", info=str(bad_od[:3]), what=GW5A_FINDINGS["finding.ranges.odiv"]))
    pll = _gw5a_mk(GW5A_DEVICES[0], 50e6, [(5e6, 0, 1e-2)])
    try: cfg = pll.compute_config(); pll.do_finalize(); od = pll.params["p_ODIV0_SEL"]; st, info = (PROVED if 1 <= od <= 128 else VIOLATED), f"p_ODIV0_SEL={od}"
    except ValueError as e: st, info = PROVED, f"refused: {e}"
    out.append(res("finding.ranges.odiv.native[GW5APLL clkin=50MHz,out=5MHz]", "finding-witness", st, 0, "executed", info=info, what=GW5A_FINDINGS["finding.ranges.odiv"]))
    return dict(results=out, functions=[M + "gowin_gw5a.GW5APLL.compute_config/do_finalize (bounded)"], samples=[dict(bounded="GW5APLL", evaluations=evals)])

# ----------------------------------------------------------------------------------------------------------- bounded: USPMMCM
def c_uspmmcm_instance():
    out = []; evals = 0; bad = []; badc = []
    reqs = [(100e6, [(100e6, 0), (200e6, 90)]), (125e6, [(25e6, 0)]), (50e6, [(333e6, 0), (83.25e6, 0)]), (200e6, [(12.288e6, 0)]), (10e6, [(775e6, 0)]), (100e6, [(1e6, 0)]), (33.333e6, [(148.5e6, 0), (74.25e6, 0)])]
    eighths = [x / 8 for x in range(16, 1025)]
    for sg in (-1, -3):
        for fin, outs in reqs:
            evals += 1; mg = 1e-2 if fin != 33.333e6 else 1e-5
            pll = xilinx_usp.USPMMCM(speedgrade=sg); pll.logger.disabled = True
            pll.register_clkin(Signal(), fin)
            for k, (fo, ph) in enumerate(outs): pll.create_clkout(ClockDomain(f"o{k}"), fo, phase=ph, margin=mg, with_reset=False, buf=None)
            try: cfg = pll.compute_config()
            except ValueError: cfg = None
            if cfg is None:
                ex = None
                for D in range(*pll.divclk_divide_range):
                    for Mu in eighths:
                        vco = fin * Mu / D
                        if not (pll.vco_freq_range[0] * (1 + pll.vco_margin) <= vco <= pll.vco_freq_range[1] * (1 - pll.vco_margin)): continue
                        def can(n, fo):
                            if n == 0: return any(2 <= d <= 128 and abs(vco / d - fo) <= fo * mg for d in (math.floor(vco / fo * 8) / 8, math.floor(vco / fo * 8 + 1) / 8))
                            return any(1 <= d <= 128 and abs(vco / d - fo) <= fo * mg for d in (int(vco // fo), int(vco // fo) + 1))
                        if all(can(n, fo) for n, (fo, ph) in enumerate(outs)): ex = (D, Mu); break
                    if ex: break
                if ex: badc.append((sg, fin, outs, f"refused although D={ex[0]} M={ex[1]} satisfies it"))
                continue
            try:
                pll.do_finalize(); p = pll.params
                ok = p["p_CLKFBOUT_MULT_F"] == cfg["clkfbout_mult"] and p["p_DIVCLK_DIVIDE"] == cfg["divclk_divide"] and p["p_CLKIN1_PERIOD"] == 1e9 / fin
                vco = fin * p["p_CLKFBOUT_MULT_F"] / p["p_DIVCLK_DIVIDE"]
                ok = ok and pll.vco_freq_range[0] <= vco <= pll.vco_freq_range[1]
                for n, (fo, ph) in enumerate(outs):
                    key = "p_CLKOUT0_DIVIDE_F" if n == 0 else f"p_CLKOUT{n}_DIVIDE"
                    ok = ok and p[key] == cfg[f"clkout{n}_divide"] and p[f"p_CLKOUT{n}_PHASE"] == cfg[f"clkout{n}_phase"] == ph and abs(vco / p[key] - fo) <= fo * mg * (1 + 1e-9)
                if not ok: bad.append((sg, fin, outs))
            except Exception as e: bad.append((sg, fin, outs, f"{type(e).__name__}: {e}"))
    out.append(res(f"ens.instance+meets[USPMMCM, 2 speed grades x {len(reqs)} requests]", "bounded", BOUNDED_OK if not bad else VIOLATED, 0, "executed; MMCME4_ADV parameters compared with compute_config(), frequencies recomputed from them", evaluations=evals, info=str(bad[:2])))
    out.append(res(f"ens.complete[USPMMCM, 2 speed grades x {len(reqs)} requests]", "bounded", BOUNDED_OK if not badc else VIOLATED, 0, "independent exhaustive search", evaluations=evals, info=str(badc[:2])))
    pll = xilinx_usp.USPMMCM(speedgrade=-1); pll.logger.disabled = True
    pll.register_clkin(Signal(), 101.005e6); pll.create_clkout(ClockDomain("w"), 100e6, margin=1e-2, with_reset=False, buf=None)
    try:
        cfg = pll.compute_config(); fo = 101.005e6 * cfg["clkfbout_mult"] / cfg["divclk_divide"] / cfg["clkout0_divide"]
        st, info = (PROVED if abs(fo - 100e6) <= 100e6 * 1e-2 else VIOLATED), f"M={cfg['clkfbout_mult']} D={cfg['divclk_divide']} d0={cfg['clkout0_divide']}: {fo/1e6:.6f}MHz, off by {abs(fo-100e6)/1e6:.4f}%"
    except ValueError as e: st, info = PROVED, f"refused: {e}"
    out.append(res("finding.meets.native[USPMMCM clkin=101.005MHz,out=100MHz,margin=1e-2]", "finding-witness", st, 0, "executed", info=info, what=USP_FINDINGS["finding.meets"]))
    return dict(results=out, functions=[M + "xilinx_usp.USPMMCM.do_finalize (bounded)", M + "xilinx_usp.USPMMCM.compute_config (completeness, bounded)"], samples=[dict(bounded="USPMMCM", evaluations=evals)])

# ------------------------------------------------------------------------------------------------ bounded: Efinix TRIONPLL (Trion)
EFX_FINDINGS = {"finding.ranges.fpll": "TRIONPLL.compute_config filters the feedback divider with `clk_fb_freq * c < pll_range[0] or clk_fb_freq > pll_range[1]` - the upper test lacks `* c`: the post-divider frequency fVCO/O is never checked against FPLL_MAX (1800 MHz); e.g. clkin 97 MHz, one 97 MHz feedback output: M=1 N=1 O=1 C=37, fPLL = fVCO = 3589 MHz"}
def _trion(fin, outs, fb):
    import types
    pll = object.__new__(efinix.TRIONPLL)              # the constructor needs an Efinix platform; compute_config reads only the interface-designer block
    block = dict(type="PLL", name="pll0", feedback=fb, input_freq=fin, clk_out=[[f"clk{k}", f, ph, 0, False] for k, (f, ph) in enumerate(outs)])
    pll.name = "pll0"; pll.nclkouts = len(outs); pll.logger = logging.getLogger("EFINIXPLL")
    pll.platform = types.SimpleNamespace(device="T20F256", family="Trion", toolchain=types.SimpleNamespace(ifacewriter=types.SimpleNamespace(blocks=[block], get_block=lambda name: block)))
    return pll, block

def _trion_exists(cls, fin, outs, fb):
    vr, pr, lr = cls.get_vco_freq_range(None), cls.get_pfd_freq_range(None), cls.get_pll_freq_range(None)
    f_fb = outs[fb][0]
    for n in range(1, 16):
        if not (pr[0] <= fin / n <= pr[1]): continue
        m = round(f_fb * n / fin)
        if not (1 <= m <= 255) or abs(fin / n * m - f_fb) > f_fb * 1e-12: continue
        for o in ([2, 4, 8] if len(outs) > 1 else [1, 2, 4, 8]):
            for c in cls.get_c_range(None, outs[fb][1]):
                fvco = fin / n * m * o * c; fpll = fvco / o
                if not (vr[0] <= fvco <= vr[1]) or m * o * c > 255 or not (lr[0] <= fpll <= lr[1]): continue
                if all(any(abs(fpll / cx - f) <= f * 1e-12 for cx in cls.get_c_range(None, ph)) for k, (f, ph) in enumerate(outs) if k != fb): return (n, m, o, c)
    return None

def c_efinix():
    """TRIONPLL.compute_config (only runs for Trion parts with a feedback output; the result goes to the interface-designer block, no Instance):
    enumerated requests; ranges and exact output frequencies recomputed from the block; completeness against an independent search"""
    cls = efinix.TRIONPLL; out = []; evals = 0; bad = []; badf = []; badc = []
    vr, pr, lr = cls.get_vco_freq_range(None), cls.get_pfd_freq_range(None), cls.get_pll_freq_range(None)
    reqs = [(fin, outs, 0) for fin in (25e6, 33.33e6, 50e6, 100e6) for outs in ([(100e6, 0)], [(50e6, 0)], [(75e6, 0), (150e6, 0)], [(100e6, 0), (100e6, 90), (25e6, 0)], [(200e6, 0), (400e6, 0)], [(97e6, 0)], [(12.5e6, 0), (800e6, 0)])]
    reqs += [(97e6, [(97e6, 0)], 0), (10e6, [(130e6, 0), (65e6, 180)], 1), (40e6, [(1e6, 0)], 0)]
    for fin, outs, fb in reqs:
        evals += 1
        pll, block = _trion(fin, outs, fb)
        try: pll.compute_config(); refused = False
        except AssertionError: refused = True
        except Exception as e: bad.append((fin, outs, f"{type(e).__name__}: {e}")); continue
        ex = _trion_exists(cls, fin, outs, fb)
        if refused:
            if ex is not None: badc.append((fin, outs, f"refused although N,M,O,Cfbk={ex} satisfies it"))
            continue
        N, Mu, O = block["N"], block["M"], block["O"]; cs = [block[f"CLKOUT{k}_DIV"] for k in range(len(outs))]
        fvco = fin / N * Mu * O * cs[fb]; fpll = fvco / O
        ok = 1 <= N <= 15 and 1 <= Mu <= 255 and O in (1, 2, 4, 8) and all(1 <= c <= 256 for c in cs) and Mu * O * cs[fb] <= 255
        ok = ok and pr[0] <= fin / N <= pr[1] and vr[0] <= fvco <= vr[1] and fpll >= lr[0] and abs(block["VCO_FREQ"] - fvco) <= fvco * 1e-12
        ok = ok and all(abs(fpll / cs[k] - f) <= f * 1e-12 and cs[k] in cls.get_c_range(None, ph) for k, (f, ph) in enumerate(outs))
        if not ok: bad.append((fin, outs, dict(N=N, M=Mu, O=O, C=cs, fvco=fvco)))
        if fpll > lr[1]: badf.append((fin, outs, f"N={N} M={Mu} O={O} C={cs}: fPLL={fpll/1e6:g}MHz > {lr[1]/1e6:g}MHz"))
    out.append(res(f"ens.ranges+meets[TRIONPLL, {evals} requests with a feedback output]", "bounded", BOUNDED_OK if not bad else VIOLATED, 0, "executed; recomputed from the block entries M/N/O/CLKOUTn_DIV", evaluations=evals, info=str(bad[:2])))
    out.append(res(f"ens.complete[TRIONPLL, {evals} requests]", "bounded", BOUNDED_OK if not badc else VIOLATED, 0, "independent search", evaluations=evals, info=str(badc[:2])))
    out.append(res(f"finding.ranges.fpll<=FPLL_MAX[TRIONPLL, {evals} requests]", "finding-witness", PROVED if not badf else VIOLATED, 0, "executed", info=str(badf[:2]), what=EFX_FINDINGS["finding.ranges.fpll"]))
    pll, block = _trion(50e6, [(100e6, 0)], -1)
    out.append(res("ens.not-applicable[EFINIXPLL without feedback output / TITANIUMPLL: compute_config computes nothing, Efinity does]", "bounded", BOUNDED_OK if pll.compute_config() is None and "M" not in block else VIOLATED, 0, "executed"))
    return dict(results=out, functions=[M + "efinix.EFINIXPLL.compute_config (bounded; TRIONPLL tables)"], samples=[dict(bounded="TRIONPLL", evaluations=evals)])

# --------------------------------------------------------------------------------------------- bounded: CologneChip GateMatePLL
def c_colognechip():
    """GateMatePLL has no search (the vendor tool derives the dividers from REF_CLK/OUT_CLK): only 'the parameters placed on the instance
    equal the request' applies"""
    from migen.fhdl.specials import Instance
    out = []; bad = []; evals = 0
    for perf, fin, outs in (("speed", 10e6, {0: 100e6}), ("economy", 10e6, {0: 48e6, 90: 48e6, 180: 96e6}), ("lowpower", 25e6, {0: 125e6, 270: 250e6, 180: 125e6}), ("undefined", 10e6, {180: 20e6, 0: 10e6})):
        evals += 1
        pll = colognechip.GateMatePLL(perf_mode=perf); pll.logger.disabled = True
        pll.register_clkin(Signal(), fin)
        sigs = {}
        for ph, f in outs.items(): cd = ClockDomain(f"o{ph}"); pll.create_clkout(cd, f, phase=ph, with_reset=False); sigs[ph] = pll._clkouts[ph][0]
        try:
            pll.do_finalize()
            inst = [x for x in pll._fragment.specials if isinstance(x, Instance)] if hasattr(pll, "_fragment") else []
            inst = inst or [x for x in getattr(pll, "specials")._fm._fragment.specials if isinstance(x, Instance)]
            it = {(type(i).__name__, i.name): (i.value if hasattr(i, "value") else i.expr) for i in inst[0].items}
            base = min(outs.values())
            ok = inst[0].of == "CC_PLL" and it[("Parameter", "REF_CLK")] == str(fin / 1e6) and it[("Parameter", "OUT_CLK")] == str(base / 1e6) and it[("Parameter", "PERF_MD")] == perf.upper()
            for ph in (180, 270): ok = ok and it[("Parameter", f"CLK{ph}_DOUB")] == (1 if outs.get(ph, 0) == 2 * base else 0)
            for ph, sg in sigs.items(): ok = ok and it[("Output", f"CLK{ph}")] is sg
            if not ok: bad.append((perf, fin, outs))
        except Exception as e: bad.append((perf, fin, outs, f"{type(e).__name__}: {e}"))
    out.append(res(f"ens.instance[GateMatePLL, {evals} requests: REF_CLK/OUT_CLK/CLKn_DOUB/outputs equal the request]", "bounded", BOUNDED_OK if not bad else VIOLATED, 0, "executed", evaluations=evals, info=str(bad[:2])))
    return dict(results=out, functions=[M + "colognechip.GateMatePLL.do_finalize (bounded; no compute_config: soundness/completeness clauses not applicable)"], samples=[dict(bounded="GateMatePLL", evaluations=evals)])

def cases(tier):
    cs = [Case("NXPLL(1)", c_nx, 1), Case("NXPLL(2)", c_nx, 2), Case("NXPLL(5)", c_nx, 5), Case("NXPLL.instance+completeness", c_nx_instance),
          Case("CycloneIVPLL(-6,1)", c_intel, "CycloneIVPLL", "-6", 1), Case("CycloneIVPLL(-6,2)", c_intel, "CycloneIVPLL", "-6", 2),
          Case("CycloneVPLL(-C6,1)", c_intel, "CycloneVPLL", "-C6", 1), Case("CycloneVPLL(-C8,1)", c_intel, "CycloneVPLL", "-C8", 1),
          Case("Cyclone10LPPLL(-I8,1)", c_intel, "Cyclone10LPPLL", "-I8", 1), Case("Max10PLL(-6,1)", c_intel, "Max10PLL", "-6", 1),
          Case("StratixVPLL(-C1,1)", c_intel, "StratixVPLL", "-C1", 1), Case("StratixVPLL(-C4,1)", c_intel, "StratixVPLL", "-C4", 1),
          Case("Intel.tables", c_intel_tables), Case("Intel.instance+completeness", c_intel_instance),
          Case("GW1NPLL(GW1N,1)", c_gw1n, "GW1N", 1), Case("GW1NPLL(GW1NS,1)", c_gw1n, "GW1NS", 1), Case("GW1NPLL(GW1N-1S,1)", c_gw1n, "GW1N-1S", 1), Case("GW2APLL(GW2A,1)", c_gw1n, "GW2A", 1),
          Case("GW1NPLL(GW1N,2)", c_gw1n, "GW1N", 2), Case("GW1NPLL(GW1N,1,any vco_margin)", c_gw1n, "GW1N", 1, True), Case("GW2APLL(GW2A,1,any vco_margin)", c_gw1n, "GW2A", 1, True), Case("GW2APLL(GW2A,2)", c_gw1n, "GW2A", 2), Case("GW1NPLL+GW2APLL(bounded)", c_gw1n_bounded),
          Case("GW5APLL(GW5A,1)", c_gw5a, GW5A_DEVICES[0][1], 1), Case("GW5APLL(GW5AT,1)", c_gw5a, GW5A_DEVICES[1][1], 1), Case("GW5APLL(GW5AST,1)", c_gw5a, GW5A_DEVICES[2][1], 1),
          Case("GW5APLL(bounded)", c_gw5a_bounded),
          Case("USPMMCM(-1,1)", c_uspmmcm, -1, 1), Case("USPMMCM(-1,2)", c_uspmmcm, -1, 2), Case("USPMMCM(-2,4)", c_uspmmcm, -2, 4), Case("USPMMCM(-3,2)", c_uspmmcm, -3, 2),
          Case("USPMMCM.instance+completeness", c_uspmmcm_instance), Case("TRIONPLL(bounded)", c_efinix), Case("GateMatePLL.instance", c_colognechip)]
    if tier == "thorough":
        cs += [Case("CycloneVPLL(-C6,3)", c_intel, "CycloneVPLL", "-C6", 3, timeout=3600), Case("StratixVPLL(-C1,2)", c_intel, "StratixVPLL", "-C1", 2, timeout=1800),
               Case("GW1NPLL(GW1N,3)", c_gw1n, "GW1N", 3, timeout=3600), Case("GW5APLL(GW5A,2)", c_gw5a, GW5A_DEVICES[0][1], 2, timeout=1800)]
    return cs

ASSUMPTIONS = [
    "C20 ext: floats are treated as real arithmetic (rounding at margin boundaries is not modelled); math.ceil/floor, round, int(), // and math.isclose are replaced by their real-number contracts (round: any integer within 1/2; isclose: |a-b| <= rel_tol*max(a,b) for positive a, b)",
    "C20 ext: requests are legal - input frequency inside the helper's declared input range where it declares one (NXPLL clki_freq_range, Intel clkin_freq_range, USPMMCM clkin_freq_range; Gowin: any positive input), output frequencies positive, margins >= 0 (< 1 for Gowin/USPMMCM), GW5APLL outputs below twice the VCO minimum (above, round(vco/f) = 0 and the native helper raises ZeroDivisionError); symbolic cases use phase 0 (phases are exercised by the bounded cases only)",
    "C20 ext: first-fit searches (NXPLL, USPMMCM) are cut as in C20_clocks.py; best-of searches (IntelClocking, GW1NPLL, GW5APLL) use the candidate-collection invariant 'every member satisfies the postcondition' (obligations inv.member.*: every candidate an arbitrary iteration adds is checked; afterwards the collection is abstracted by no member / one arbitrary member). Frames are checked on the current source: the loop bodies only append to the collection (_only_appended), the cut loops iterate over the literal ranges the contract havocs over (_loops_are), a non-leaving divider iteration assigns clk_freq only (_frame_check, _frame_check_usp); IntelClocking's inner best-divider loop carries the invariant 'the stored divider is an in-range C counter that meets the margin' (inv.cloop.step); float('inf') is over-approximated by an arbitrary real; geometric_mean is replaced by 'returns some real'",
    "C20 ext: Intel: ALTPLL receives MULTIPLY_BY = m and DIVIDE_BY = c*n; the ranges of n and c are stated on specification-only witnesses (n, c) with DIVIDE_BY = c*n; Gowin/USPMMCM/NXPLL: the device ranges are the ones the helper itself declares (class tables, literal loop bounds, parameter comments of do_finalize 'IDIV (1-64)', 'ODIV (1-128)', 'even divisor between 2 and 128', UG572 2.0-128.0 step 0.125)",
    "C20 ext: a solver 'unknown' on a path-feasibility query keeps the path (never prunes it); obligations are decided by separate queries (60 s limit, 'unknown' is reported as undecided)",
    "C20 ext: completeness ('refused only if no setting exists'), instance parameters, TRIONPLL (needs an Efinix platform: compute_config is run on a stub interface-designer block, Trion with feedback output only; TITANIUMPLL and PLLs without feedback output compute nothing) and GateMatePLL (no search at all) are bounded stand-ins on enumerated requests (labelled, not counted as proved)",
]
FUNCTIONS = [M + "lattice_nx.NXPLL.compute_config", M + "intel_common.IntelClocking.compute_config", M + "gowin_gw1n.GW1NPLL.compute_config", M + "gowin_gw5a.GW5APLL.compute_config", M + "xilinx_usp.USPMMCM.compute_config"]
