"""Shared STREAM-REFINE contract schema for C03 (data) and C04 (handshake/progress) on litex/soc/interconnect/stream.py.
Top-level postconditions come from the property text: the source presents exactly the head of a ghost queue that is
pushed by sink handshakes and popped by source handshakes (nothing lost / duplicated / reordered / altered);
a stalled source token is held; cooperating partners always move a token within N cycles."""
import z3
from vf.elab import capture, L, locals_of, mk
from vf.hw import *
from migen import *
from litex.soc.interconnect import stream

C04_NAMES = ("ens.hold", "resp.move", "resp.drain", "resp.fill", "resp.serve", "resp.release", "ens.handover")

def select(h, prop):
    """keep only the obligations belonging to `prop` (C03 data clauses vs C04 handshake/progress clauses)"""
    is4 = lambda n: any(n.startswith(p) for p in C04_NAMES)
    if isinstance(h, dict):      # a case that already produced results (executed structural clauses, or a design that could not be elaborated): split by clause name
        keep = [r for r in h.get("results", []) if is4(r["name"]) == (prop == "C04") or (prop != "C04" and r.get("kind") == "harness")]
        return dict(h, results=keep)
    keep = (lambda n: is4(n)) if prop == "C04" else (lambda n: not is4(n))
    for d in (h.ensures, h.seqs, h.responds, h.findings):
        for n in list(d):
            if not keep(n): del d[n]
    return h

def tok_sigs(ep):
    return [ep.first, ep.last] + [s for s, _ in ep.payload.iter_flat()] + [s for s, _ in ep.param.iter_flat()]
def tok(h, ep, which="v"):
    f = h.v if which == "v" else h.n
    return cat(*[f(s) for s in tok_sigs(ep)])
def ep_inputs(sink, source):
    return [sink.valid] + tok_sigs(sink) + [source.ready]
def fire(h, ep): return z3.And(b(h.v(ep.valid)), b(h.v(ep.ready)))

def producer_holds(h, sink, name=""):
    """C04 precondition: the producer holds valid and the whole token until accepted"""
    p_off = h.prev("offer" + name, bv1(z3.And(b(h.v(sink.valid)), z3.Not(b(h.v(sink.ready))))))
    p_tok = h.prev("tok" + name, tok(h, sink))
    h.assume(z3.Implies(b(p_off), z3.And(b(h.v(sink.valid)), tok(h, sink) == p_tok)),
             "producer holds valid and its token (payload, param, first, last) until accepted")

def hold_clause(h, source, name="ens.hold"):
    stalled = z3.And(b(h.v(source.valid)), z3.Not(b(h.v(source.ready))))
    h.ensure_seq(name, lambda at: z3.Implies(at(stalled, 0), z3.And(at(b(h.v(source.valid)), 1), at(tok(h, source), 1) == at(tok(h, source), 0))))

def fifo_like(name, dut, cap, hints=None, bypass=False, N=None, sink=None, source=None, extra_inputs=(), xform=None, auto=True, latency=0, clock="sys"):
    """FIFO-queue refinement: ghost queue q[0..cap] (cap+1 slots: one slack), qlen.
    xform(token_term) -> token_term : the documented function applied to each token (identity by default)."""
    sink = sink or dut.sink; source = source or dut.source
    h = HwCheck(name, dut, ep_inputs(sink, source) + list(extra_inputs), clock=clock)
    W = tok(h, sink).size(); CAPG = cap + 1; LW = max(3, (CAPG + 1).bit_length())
    qlen = h.ghost("qlen", LW); q = [h.ghost(f"q{i}", W) for i in range(CAPG)]
    in_fire, out_fire = fire(h, sink), fire(h, source)
    nonempty = qlen != K(0, LW)
    byp  = z3.And(out_fire, z3.Not(nonempty))
    pop  = z3.And(out_fire, nonempty)
    plen = z3.If(pop, qlen - 1, qlen)
    pq   = [z3.If(pop, q[i + 1] if i + 1 < CAPG else q[i], q[i]) for i in range(CAPG)]
    push = z3.And(in_fire, z3.Not(byp))
    h.ghost_next(qlen, z3.If(push, plen + 1, plen))
    tin = tok(h, sink)
    for i in range(CAPG): h.ghost_next(q[i], z3.If(z3.And(push, plen == K(i, LW)), tin, pq[i]))
    producer_holds(h, sink)
    # field views of the queued tokens for the candidate generator (token order: first, last, payload..., param...)
    if W <= 24:
        for i in range(CAPG):
            off = W
            for s_ in tok_sigs(sink):
                off -= s_.nbits
                if 1 < s_.nbits or CAPG <= 3: h.view(f"q{i}.{s_.backtrace[-1][0] if s_.backtrace else 'f'}", z3.Extract(off + s_.nbits - 1, off, q[i]))
    h.hint("qlen<=cap", ule(qlen, cap))
    if hints:
        # hand-written hints refer to internal registers: when the code's internals no longer have the shape they assume (renamed, narrowed or
        # removed register) the hints are dropped and the generated candidates take over - never a harness fault, the POSTCONDITIONS decide
        try: hints(h, qlen, q)
        except (z3.Z3Exception, AttributeError, KeyError, TypeError, IndexError) as e: h.use_auto = True; h.assumption_notes.append(f"hand-written invariant hints not applicable ({type(e).__name__}): generated candidates used")
    fx = xform or (lambda t: t)
    head_ok = z3.And(nonempty, tok(h, source) == fx(q[0]))
    if bypass:
        head_ok = z3.Or(head_ok, z3.And(z3.Not(nonempty), b(h.v(sink.valid)), tok(h, source) == fx(tin), z3.Implies(b(h.v(source.ready)), b(h.v(sink.ready)))))
    h.ensure("ens.head", z3.Implies(b(h.v(source.valid)), head_ok))
    h.ensure("ens.cap",  z3.Implies(push, ule(plen, cap)))     # ghost has one slack slot: a token is never accepted beyond capacity (nothing dropped)
    h.ensure("ens.idle", z3.Implies(z3.And(z3.Not(nonempty), z3.Not(b(h.v(sink.valid)))), z3.Not(b(h.v(source.valid)))))
    hold_clause(h, source)
    N = N or (cap + 2 + latency)
    h.respond("resp.present", z3.BoolVal(True), b(h.v(source.valid)), N, start=nonempty)
    h.respond("resp.move", z3.And(b(h.v(sink.valid)), b(h.v(source.ready))), z3.Or(in_fire, out_fire), N)
    h.respond("resp.drain", b(h.v(source.ready)), out_fire, N, start=nonempty)
    h.cover("cover.deliver", out_fire, depth=cap + 4 + latency)
    h.cover("cover.full", z3.And(qlen == K(cap, LW)), depth=2 * cap + 4 + latency) if cap > 0 else None
    h.use_auto = auto
    h.functions = [f"litex.soc.interconnect.stream.{type(dut).__name__}.__init__"]
    h.q = q; h.qlen = qlen
    return h
