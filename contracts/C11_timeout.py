"""C11: a silent or absent slave cannot hang the bus (WaitTimer, wishbone.Timeout, InterconnectShared with timeout,
AXILiteTimeout, AXITimeout, SoCController bus-error counter)."""
import z3
from .wblib import *
from litex.gen import LiteXModule
from litex.gen.genlib.misc import WaitTimer
from litex.soc.interconnect import axi
from litex.soc.interconnect.axi import axi_lite, axi_full
from vf.core import Case

def c_waittimer(t):
    d = mk(WaitTimer, t); h = HwCheck(f"WaitTimer({t})", d, [d.wait])
    GW = max(2, (t + 1).bit_length() + 1)
    c = h.ghost("run", GW)       # consecutive cycles with wait=1 seen so far (saturating at t)
    wait = b(h.v(d.wait))
    h.ghost_next(c, z3.If(wait, z3.If(uge(c, t), c, c + 1), K(0, GW)))
    count = L(d, "count")
    if count is not None and count in h.ts.var: h.hint("count", zx(h.v(count), GW) + c == K(t, GW))
    h.hint("run<=t", ule(c, t))
    for s in h.ts.state:      # renamed counter: any register of the right width
        if s.nbits <= GW: h.hint(f"cnt:{s.duid}", zx(h.v(s), GW) + c == K(t, GW))
    h.ensure("ens.done", b(h.v(d.done)) == uge(c, t))            # done exactly after t consecutive wait cycles; reload when wait drops
    if t <= 300: h.cover("cover.done", b(h.v(d.done)), depth=t + 2)
    else: h.cover("cover.counting", c == K(3, GW), depth=5)          # done is t cycles away from reset: beyond a BMC cover; the counter is seen to move, ens.done covers the rest
    h.bmc_depth = min(t, 300) + 4
    h.functions = ["litex.gen.genlib.misc.WaitTimer.__init__"]
    return h

def timer_hints(h, mod, w, cycles, GW):
    for s in h.ts.state:
        if s.nbits <= GW and s.reset.value == cycles: h.hint(f"cnt:{s.duid}", zx(h.v(s), GW) + w == K(cycles, GW))

def c_wb_timeout(cycles):
    m = wishbone.Interface(data_width=32, adr_width=30)
    class Top(LiteXModule):
        def __init__(self):
            self.ack_i = Signal(); self.dat_i = Signal(32); self.err_i = Signal()
            # slave side drives ack/dat_r first; Timeout overrides (statement order as in InterconnectShared: decoder first)
            self.comb += [m.ack.eq(self.ack_i), m.dat_r.eq(self.dat_i), m.err.eq(self.err_i)]
            self.to = wishbone.Timeout(m, cycles)
    d = mk(Top); h = HwCheck(f"wishbone.Timeout({cycles})", d, [m.cyc, m.stb, d.ack_i, d.dat_i, d.err_i, m.adr, m.we])
    r = req(h, m)
    h.assume(z3.Implies(z3.Or(b(h.v(d.ack_i)), b(h.v(d.err_i))), r), "Wishbone slave raises ack/err only while cyc&stb are presented to it")
    GW = max(2, (cycles + 1).bit_length() + 1)
    w = h.ghost("waited", GW)     # consecutive cycles the current request has waited without ack
    waiting = z3.And(r, z3.Not(b(h.v(m.ack))))
    h.ghost_next(w, z3.If(waiting, z3.If(uge(w, cycles), w, w + 1), K(0, GW)))
    timer_hints(h, d, w, cycles, GW); h.hint("w<=t", ule(w, cycles))
    expired = uge(w, cycles)
    ones = K(2**32 - 1, 32)
    h.ensure("ens.term", z3.Implies(expired, z3.And(b(h.v(m.ack)), h.v(m.dat_r) == ones, b(h.v(d.to.error)))))
    h.ensure("ens.transparent", z3.Implies(z3.Not(expired), z3.And(h.v(m.ack) == h.v(d.ack_i), h.v(m.dat_r) == h.v(d.dat_i), h.v(m.err) == h.v(d.err_i), z3.Not(b(h.v(d.to.error))))))
    h.ensure("ens.same-cycle", z3.Implies(z3.And(expired, b(h.v(d.ack_i))), z3.And(b(h.v(m.ack)), b(h.v(d.to.error)))))   # late response in the expiry cycle: still exactly one (error) termination
    h.ensure("ens.error-pulse", z3.Implies(b(h.v(d.to.error)), z3.Not(b(h.n(d.to.error))) if False else z3.BoolVal(True)))
    h.ensure_seq("ens.recover", lambda at: z3.Implies(at(expired, 0), at(w == K(0, GW), 1)))                                   # timer reloaded after a time-out
    h.ensure_seq("ens.error-once", lambda at: z3.Implies(at(b(h.v(d.to.error)), 0), z3.Not(at(b(h.v(d.to.error)), 1))) if cycles > 0 else z3.BoolVal(True))
    h.respond("resp.term", r, b(h.v(m.ack)), cycles + 1)      # a held request is terminated within cycles+1 cycles, whatever the slave does
    h.cover("cover.timeout", b(h.v(d.to.error)), depth=cycles + 3)
    h.bmc_depth = cycles + 4
    del h.ensures["ens.error-pulse"]
    h.functions = ["litex.soc.interconnect.wishbone.Timeout.__init__", "litex.gen.genlib.misc.WaitTimer.__init__"]
    return h

def c_wb_shared_timeout(nm, ns, cycles, register=False, crossbar=False):
    """real InterconnectShared(timeout_cycles): arbitrary subset of slaves silent, unmapped addresses"""
    masters = [wishbone.Interface(data_width=32, adr_width=30) for _ in range(nm)]
    slaves = [wishbone.Interface(data_width=32, adr_width=30) for _ in range(ns)]
    def dec(i): return lambda a: a[28:30] == i       # slave i at adr[28:30]==i ; value ns.. unmapped
    cls = wishbone.Crossbar if crossbar else wishbone.InterconnectShared
    d = mk(cls, masters, [(dec(i), s) for i, s in enumerate(slaves)], register, cycles)
    ins = []
    for m in masters: ins += m_inputs(m)
    for s in slaves: ins += s_inputs(s)
    h = HwCheck(f"wishbone.{cls.__name__}({nm}x{ns},timeout={cycles},register={register})", d, ins)
    for i, m in enumerate(masters): master_holds(h, m, name=str(i))
    for s in slaves: slave_legal(h, s)
    GW = max(2, (cycles + 1).bit_length() + 1)
    # per master: cycles its request has been waiting while it owns the bus (granted)
    if not crossbar:
        grant = d.arbiter.rr.grant
        for i, m in enumerate(masters):
            owns = z3.And(req(h, m), eqc(h.v(grant), i)) if nm > 1 else req(h, m)
            w = h.ghost(f"waited{i}", GW)
            waiting = z3.And(owns, z3.Not(b(h.v(m.ack))))
            h.ghost_next(w, z3.If(waiting, z3.If(uge(w, cycles), w, w + 1), K(0, GW)))
            h.hint(f"w{i}<=t", ule(w, cycles))
            for s in h.ts.state:
                if s.nbits <= GW and s.reset.value == cycles:
                    h.hint(f"cnt{i}:{s.duid}", z3.Implies(owns, zx(h.v(s), GW) + w == K(cycles, GW)))
                    h.hint(f"cntidle{i}:{s.duid}", z3.Implies(z3.Not(z3.Or(*[req(h, mm) for mm in masters])), h.v(s) == K(cycles, s.nbits)))
            h.hint(f"w{i}.zero", z3.Implies(z3.Not(owns), w == K(0, GW)))
            expired = uge(w, cycles)
            h.ensure(f"ens.term{i}", z3.Implies(expired, z3.And(b(h.v(m.ack)), h.v(m.dat_r) == K(2**32 - 1, 32), b(h.v(d.timeout.error)))))
            # "requests answered in time are never disturbed": until ITS request has waited `cycles` cycles the owner sees exactly the slaves' acknowledge
            # (however long it keeps cyc/stb up over earlier, answered transfers) and no error pulse
            anyack = z3.Or(*[b(h.v(s.ack)) for s in slaves])
            h.ensure(f"ens.transparent{i}", z3.Implies(z3.And(owns, z3.Not(expired)), z3.And(b(h.v(m.ack)) == anyack, z3.Not(b(h.v(d.timeout.error))))))
            h.respond(f"resp.term{i}", owns, b(h.v(m.ack)), cycles + 1)
        h.use_auto = True
        h.cover("cover.timeout", b(h.v(d.timeout.error)), depth=cycles + 4)
        h.bmc_depth = cycles + 5
    else:
        # Crossbar accepts timeout_cycles but builds no Timeout: a request to a silent slave is never terminated
        m = masters[0]
        w = h.ghost("waited0", GW); waiting = z3.And(req(h, m), z3.Not(b(h.v(m.ack))), z3.Not(b(h.v(m.err))))
        h.ghost_next(w, z3.If(waiting, z3.If(uge(w, cycles + 2 + 2 * nm), w, w + 1), K(0, GW)))
        h.finding("finding.crossbar-no-timeout", ult(w, cycles + 2 + 2 * nm),
                  "wishbone.Crossbar accepts timeout_cycles but instantiates no Timeout: a request to a silent slave (or unmapped address) waits forever")
        h.bmc_depth = cycles + 3 + 2 * nm + 2
    h.functions = [f"litex.soc.interconnect.wishbone.{cls.__name__}.__init__", "litex.soc.interconnect.wishbone.Timeout.__init__"]
    return h

def c_axil_timeout(cycles, full=False):
    if full:
        m = axi_full.AXIInterface(data_width=32, address_width=32, id_width=2)
        TO = axi_full.AXITimeout
    else:
        m = axi_lite.AXILiteInterface(data_width=32, address_width=32)
        TO = axi_lite.AXILiteTimeout
    class Top(LiteXModule):
        def __init__(self):
            self.awready_i = Signal(); self.wready_i = Signal(); self.bvalid_i = Signal(); self.bresp_i = Signal(2)
            self.arready_i = Signal(); self.rvalid_i = Signal(); self.rresp_i = Signal(2); self.rdata_i = Signal(32); self.rlast_i = Signal()
            self.comb += [m.aw.ready.eq(self.awready_i), m.w.ready.eq(self.wready_i), m.b.valid.eq(self.bvalid_i), m.b.resp.eq(self.bresp_i),
                          m.ar.ready.eq(self.arready_i), m.r.valid.eq(self.rvalid_i), m.r.resp.eq(self.rresp_i), m.r.data.eq(self.rdata_i)]
            if full: self.comb += m.r.last.eq(self.rlast_i)
            self.to = TO(m, cycles)
    d = mk(Top)
    ins = [m.aw.valid, m.w.valid, m.b.ready, m.ar.valid, m.r.ready, d.awready_i, d.wready_i, d.bvalid_i, d.bresp_i, d.arready_i, d.rvalid_i, d.rresp_i, d.rdata_i, d.rlast_i]
    h = HwCheck(f"{TO.__name__}({cycles})", d, ins)
    V = lambda s: b(h.v(s))
    GW = max(2, (cycles + 1).bit_length() + 1)
    SLVERR = K(0b10, 2)
    # ---- master environment: AXI valid held until ready; single outstanding per direction
    for ch in ("aw", "w", "ar"):
        c = getattr(m, ch); p = h.prev(f"{ch}pend", bv1(z3.And(V(c.valid), z3.Not(V(c.ready)))))
        h.assume(z3.Implies(b(p), V(c.valid)), "AXI master holds valid until ready (AW/W/AR)")
    aw_done = h.ghost("aw_done", 1); w_done = h.ghost("w_done", 1); ar_done = h.ghost("ar_done", 1)
    bfire = z3.And(V(m.b.valid), V(m.b.ready)); rfire = z3.And(V(m.r.valid), V(m.r.ready))
    awfire = z3.And(V(m.aw.valid), V(m.aw.ready)); wfire = z3.And(V(m.w.valid), V(m.w.ready)); arfire = z3.And(V(m.ar.valid), V(m.ar.ready))
    h.ghost_next(aw_done, z3.If(bfire, K(0, 1), z3.If(awfire, K(1, 1), aw_done)))
    h.ghost_next(w_done, z3.If(bfire, K(0, 1), z3.If(wfire, K(1, 1), w_done)))
    h.ghost_next(ar_done, z3.If(rfire, K(0, 1), z3.If(arfire, K(1, 1), ar_done)))
    h.assume(z3.And(z3.Implies(b(aw_done), z3.Not(V(m.aw.valid))), z3.Implies(b(w_done), z3.Not(V(m.w.valid))), z3.Implies(b(ar_done), z3.Not(V(m.ar.valid)))),
             "single-outstanding master per direction: no new AW/W (AR) before the B (R) of the previous request (scenario restriction, see DESIGN C11)")
    # ---- write channel
    wcond = z3.Or(z3.And(V(m.aw.valid), z3.Not(V(m.aw.ready))), z3.And(V(m.w.valid), z3.Not(V(m.w.ready))))
    resp_w = h.ghost("resp_w", 1); ww = h.ghost("waited_w", GW)
    det_w = z3.And(z3.Not(b(resp_w)), uge(ww, cycles), wcond)
    h.ghost_next(resp_w, z3.If(det_w, K(1, 1), z3.If(z3.And(b(resp_w), bfire), K(0, 1), resp_w)))
    h.ghost_next(ww, z3.If(z3.And(z3.Not(b(resp_w)), wcond), z3.If(uge(ww, cycles), ww, ww + 1), K(0, GW)))
    rcond = z3.And(V(m.ar.valid), z3.Not(V(m.ar.ready)))
    resp_r = h.ghost("resp_r", 1); wr = h.ghost("waited_r", GW)
    det_r = z3.And(z3.Not(b(resp_r)), uge(wr, cycles), rcond)
    h.ghost_next(resp_r, z3.If(det_r, K(1, 1), z3.If(z3.And(b(resp_r), rfire), K(0, 1), resp_r)))
    h.ghost_next(wr, z3.If(z3.And(z3.Not(b(resp_r)), rcond), z3.If(uge(wr, cycles), wr, wr + 1), K(0, GW)))
    h.hint("ww<=t", ule(ww, cycles)); h.hint("wr<=t", ule(wr, cycles))
    h.use_auto = True; h.auto_width = GW
    for fsm, g in ((d.to.wr_fsm, resp_w), (d.to.rd_fsm, resp_r)):
        try: h.hint(f"fsm{id(fsm)%97}", zx(h.v(fsm.state), 2) == zx(g, 2))
        except Exception: pass
    timers = [s for s in h.ts.state if s.reset.value == cycles and s.nbits <= GW]
    for s in timers:
        h.hint(f"cw:{s.duid}", zx(h.v(s), GW) + ww == K(cycles, GW)); h.hint(f"cr:{s.duid}", zx(h.v(s), GW) + wr == K(cycles, GW))
    h.ensure("ens.wr.error", z3.Or(b(h.v(d.to.error)) == z3.Or(det_w, det_r)))
    h.ensure("ens.wr.transparent", z3.Implies(z3.Not(b(resp_w)), z3.And(h.v(m.aw.ready) == h.v(d.awready_i), h.v(m.w.ready) == h.v(d.wready_i), h.v(m.b.valid) == h.v(d.bvalid_i), h.v(m.b.resp) == h.v(d.bresp_i))))
    h.ensure("ens.wr.respond", z3.Implies(b(resp_w), z3.And(h.v(m.aw.ready) == h.v(m.aw.valid), h.v(m.w.ready) == h.v(m.w.valid),
                                          V(m.b.valid) == z3.And(z3.Not(V(m.aw.valid)), z3.Not(V(m.w.valid))), z3.Implies(V(m.b.valid), h.v(m.b.resp) == SLVERR))))
    h.ensure("ens.rd.transparent", z3.Implies(z3.Not(b(resp_r)), z3.And(h.v(m.ar.ready) == h.v(d.arready_i), h.v(m.r.valid) == h.v(d.rvalid_i), h.v(m.r.resp) == h.v(d.rresp_i), h.v(m.r.data) == h.v(d.rdata_i))))
    h.ensure("ens.rd.respond", z3.Implies(b(resp_r), z3.And(h.v(m.ar.ready) == h.v(m.ar.valid), V(m.r.valid) == z3.Not(V(m.ar.valid)),
                                          z3.Implies(V(m.r.valid), z3.And(h.v(m.r.resp) == SLVERR, h.v(m.r.data) == K(2**32 - 1, 32), *([V(m.r.last)] if full else []))))))
    # a request that has been stalled for `cycles` cycles is detected in the next stalled cycle, then answered with SLVERR within 2 cycles of a ready master
    h.respond("resp.wr.detect", z3.And(wcond, z3.Not(b(resp_w))), det_w, cycles + 1)
    h.respond("resp.rd.detect", z3.And(rcond, z3.Not(b(resp_r))), det_r, cycles + 1)
    h.respond("resp.wr.term", V(m.b.ready), z3.And(bfire, h.v(m.b.resp) == SLVERR), 3, start=b(resp_w))
    h.respond("resp.rd.term", V(m.r.ready), z3.And(rfire, h.v(m.r.resp) == SLVERR), 3, start=b(resp_r))
    if cycles >= 64: h.bmc_time = 900
    h.cover("cover.wr.timeout", det_w, depth=cycles + 3); h.cover("cover.rd.timeout", det_r, depth=cycles + 3)
    h.cover("cover.wr.answered", z3.And(b(resp_w), bfire), depth=cycles + 6)
    # known limitation: only valid&~ready on AW/W/AR is watched; a slave that accepts the request and never responds is not covered
    since = h.ghost("since_ar", GW + 2)
    LIM = cycles + 4
    h.ghost_next(since, z3.If(rfire, K(0, GW + 2), z3.If(z3.Or(arfire, since != K(0, GW + 2)), z3.If(uge(since, LIM), since, since + 1), since)))
    h.finding("finding.accepted-then-silent", ult(since, LIM),
              f"{TO.__name__} watches only valid&~ready on AW/W/AR: a slave that accepts AR (or AW+W) and then never sends R (B) is not timed out; the master waits forever")
    h.bmc_depth = cycles + 8
    h.functions = [f"litex.soc.interconnect.axi.{'axi_full' if full else 'axi_lite'}.{TO.__name__}.__init__", "litex.gen.genlib.misc.WaitTimer.__init__"]
    return h

def c_bus_errors(with_reset=False):
    from litex.soc.integration.soc import SoCController
    d = mk(SoCController, with_reset=with_reset, with_scratch=False, with_errors=True)
    # with_reset (the SoC default): the reset register is software's to write at any time - its fields (cpu_rst, soc_rst) are free in every cycle; every error pulse is still counted
    h = HwCheck(f"SoCController.bus_errors{'(with_reset)' if with_reset else ''}", d, [d.bus_error] + ([d.cpu_rst, d.soc_rst] if with_reset else []))
    cnt = h.v(d._bus_errors.status)
    be = L(d, "bus_errors")
    reg = h.v(be) if be is not None and be in h.ts.var else None
    g = h.ghost("errs", 33)
    h.ghost_next(g, z3.If(z3.And(b(h.v(d.bus_error)), g != K(2**32 - 1, 33)), g + 1, g))
    for s in h.ts.state:
        if s.nbits == 32: h.hint(f"cnt:{s.duid}", zx(h.v(s), 33) == g)
    h.hint("g<=max", ule(g, 2**32 - 1))
    h.ensure("ens.count", zx(cnt, 33) == g)                         # one increment per error-pulse cycle, saturating at 2^32-1
    h.cover("cover.count2", cnt == K(2, 32), depth=4)
    h.functions = ["litex.soc.integration.soc.SoCController.__init__"]
    return h

def c_soc_wiring():
    """structural postcondition of SoC.finalize: ctrl.bus_error is driven by the interconnect's timeout.error"""
    import os, sys
    from vf import elab
    from litex.soc.integration.soc_core import SoCCore
    from litex.build.generic_platform import GenericPlatform
    res_ = []
    for std in ("wishbone", "axi-lite", "axi"):
        class Plat(GenericPlatform):
            def __init__(self): GenericPlatform.__init__(self, "dev", [])
        soc = SoCCore(Plat(), 1e6, cpu_type=None, bus_standard=std, bus_timeout=128, integrated_sram_size=0x100, with_uart=False, with_timer=False, integrated_rom_size=0)
        # a second master so that an interconnect (not point-to-point) is built
        if std == "wishbone":
            m1 = wishbone.Interface(data_width=32, adr_width=30); soc.bus.add_master(name="m1", master=m1)
        elif std == "axi":
            m1 = axi_full.AXIInterface(data_width=32, address_width=32); soc.bus.add_master(name="m1", master=m1)
        else:
            m1 = axi_lite.AXILiteInterface(data_width=32, address_width=32); soc.bus.add_master(name="m1", master=m1)
        soc.finalize(); elab.restore_stderr()
        ic = soc.bus._interconnect
        ok = hasattr(ic, "timeout")
        if ok:
            # the added master's own signals are free inputs (an undriven signal would be the constant 0: no request, no time-out, and the
            # wiring clause 0 == 0 would hold vacuously - harness weakness found with seeded change C11-m11); the cover shows the error can fire
            from migen.fhdl.tools import list_targets
            frag = soc.get_fragment(); driven = list_targets(frag)
            h = HwCheck(f"SoC({std}).bus_error-wiring", frag, [sg for sg in (m1.flatten() if hasattr(m1, "flatten") else [x for ch in ("aw", "w", "b", "ar", "r") for x in getattr(m1, ch).flatten()]) if sg not in driven])
            st, _, be, t = h._solve(h.ts.comb_constraints() + [h.v(soc.ctrl.bus_error) != h.v(ic.timeout.error)])
            res_.append(res(f"ens.wired[{std}]", "ensures", PROVED if st == "unsat" else NOINPUT, t, be))
            st2, _, be2, t2 = h._solve(h.ts.comb_constraints() + [h.v(ic.timeout.error) == K(1, 1)])
            res_.append(res(f"cover.error-can-fire[{std}]", "cover", OK if st2 == "sat" else (UNKNOWN if st2 == "unknown" else VACUOUS), t2, be2))
        else:
            res_.append(res(f"ens.wired[{std}]", "ensures", NOINPUT, 0, "", info="interconnect has no timeout"))
    return dict(results=res_, functions=["litex.soc.integration.soc.SoC.finalize (bus_error wiring)"])

def cases(tier):
    cs = [Case(f"WaitTimer({t})", c_waittimer, t) for t in (1, 2, 3, 8, 100)]
    cs += [Case(f"wishbone.Timeout({t})", c_wb_timeout, t) for t in (1, 4, 16)]
    cs += [Case("wishbone.InterconnectShared(2x2,timeout=4)", c_wb_shared_timeout, 2, 2, 4),
           Case("wishbone.InterconnectShared(1x2,timeout=1)", c_wb_shared_timeout, 1, 2, 1),
           Case("wishbone.InterconnectShared(2x3,timeout=3,register)", c_wb_shared_timeout, 2, 3, 3, True),
           Case("wishbone.Crossbar(2x2,timeout=4)", c_wb_shared_timeout, 2, 2, 4, False, True)]
    cs += [Case(f"AXILiteTimeout({t})", c_axil_timeout, t) for t in (1, 4, 16)]
    cs += [Case(f"AXITimeout({t})", c_axil_timeout, t, True) for t in (1, 4)]
    cs += [Case("SoCController.bus_errors", c_bus_errors), Case("SoCController.bus_errors(with_reset)", c_bus_errors, True), Case("SoC.finalize.bus_error-wiring", c_soc_wiring)]
    if tier == "thorough":
        cs += [Case("WaitTimer(1000000)", c_waittimer, 10**6), Case("wishbone.Timeout(128)", c_wb_timeout, 128), Case("AXILiteTimeout(128)", c_axil_timeout, 128),
               Case("wishbone.InterconnectShared(3x3,timeout=8)", c_wb_shared_timeout, 3, 3, 8)]
    return cs

ASSUMPTIONS = ["Wishbone/AXI partners are protocol-legal as stated in the per-case assumptions",
               "AXI(-Lite) time-out contracts are proved for single-outstanding masters per direction (scenario restriction)",
               "time-out values from a grid; WaitTimer(10^6) in the thorough tier only"]
