"""C11: interconnects built WITH a time-out - AXILiteInterconnectShared / AXIInterconnectShared / AXILiteCrossbar(timeout_cycles) / wishbone.InterconnectShared:
transparency for requests answered in time, termination with the error indication, error pulse, recovery ("after a timeout the interconnect accepts and
completes further requests from every master").  Contracts and harnesses are in contracts/C08_ic_ext.py (one module for the three interconnect properties)."""
from contracts import C08_ic_ext as M
def cases(tier): return M.cases_for("C11", tier)
ASSUMPTIONS = M.ASSUMPTIONS
