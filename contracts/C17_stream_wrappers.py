"""C17, last sentence: "The multi-word and stream wrappers preserve this under stalls."
code_8b10b.StreamEncoder / StreamDecoder (stream.PipelinedActor, latency 2 / 1, encoder.ce = decoder.ce = pipe_ce):
 * round trip: every token (d, k, first, last) accepted by the encoder leaves the decoder unchanged, exactly once and in order, for
   every valid/ready schedule (ghost token queue, STREAM-REFINE schema of C03);
 * running disparity on the stream of code words DELIVERED by the encoder: every delivered word has 4, 5 or 6 ones and follows the
   8b/10b rule for the disparity the encoder was in (6 ones only from RD-, 4 only from RD+), the reported disparity follows, the
   disparity registers hold while the pipeline is stalled, and consecutive delivered words are disparity-continuous.
The pipeline invariants are obtained from the circuit itself: "if the pipeline advanced k more steps, the output would show token j"
(the next-state functions with source.ready := 1), so no second model of the code tables is needed; the codec spec is the one of
C17_8b10b.py (decode(encode(x)) == x, ones counting)."""
import z3
from vf.elab import L, locals_of, mk
from vf.hw import *
from migen import *
from litex.gen import LiteXModule
from litex.soc.cores import code_8b10b as c8
from vf.core import Case
from contracts.streamlib import fifo_like, tok, fire, ep_inputs, producer_holds
from contracts.C17_8b10b import legal, ones

def _valid_regs(h, owner):
    """valid_n registers of a PipelinedActor in pipeline order (input side first): creation order"""
    return [s for s in h.ts.state if s.backtrace and s.backtrace[-1][0] == "valid_n" and any(owner in str(bt[0]) for bt in s.backtrace[:-1])]

def advancer(h, ready):
    """adv(e): value of the register expression e after one pipeline step with the consumer ready (next-state functions, comb inlined)"""
    rv = h.v(ready)
    def adv(e):
        e1 = h.inline_comb(h.primed(e))
        return z3.substitute(e1, (rv, K(1, 1)))
    return adv

def pipeline_hints(h, stages, head_tok, adv):
    """stages: valid registers from the OUTPUT side to the input side; the j-th occupied stage (from the output) holds ghost token j,
    where the token of stage k is what the output would show after k more steps"""
    LW = h.qlen.size(); cnt = K(0, LW); t = head_tok
    for i, vr in enumerate(stages):
        occ = b(h.v(vr))
        for j in range(min(i + 1, len(h.q))):
            h.hint(f"stage{i}@{j}", z3.Implies(z3.And(occ, cnt == K(j, LW)), t == h.q[j]))
        cnt = cnt + z3.If(occ, K(1, LW), K(0, LW))
        if i + 1 < len(stages): t = adv(t)
    h.hint("qlen=occupied", h.qlen == cnt)

def c_roundtrip(nwords):
    class Top(LiteXModule):
        def __init__(self):
            self.enc = c8.StreamEncoder(nwords); self.dec = c8.StreamDecoder(nwords)
            self.comb += self.enc.source.connect(self.dec.sink)
            self.sink, self.source = self.enc.sink, self.dec.source
    d = mk(Top)
    h = fifo_like(f"StreamEncoder->StreamDecoder({nwords})", d, 3, None, latency=3, N=5, auto=False)
    # only the 256 data symbols and the 12 defined control symbols are offered (as in C17_8b10b); nothing is assumed about d/k while valid is low
    for i in range(nwords):
        h.assume(z3.Implies(b(h.v(d.sink.valid)), legal(z3.Extract(8 * i + 7, 8 * i, h.v(d.sink.d)), z3.Extract(i, i, h.v(d.sink.k)))),
                 "only the 256 data symbols and the 12 defined control symbols are offered to the encoder (while valid is low d/k are arbitrary)")
    ve, vd = _valid_regs(h, "streamencoder"), _valid_regs(h, "streamdecoder")
    if len(ve) == 2 and len(vd) == 1:
        pipeline_hints(h, [vd[0], ve[1], ve[0]], tok(h, d.source), advancer(h, d.source.ready))
    # the pipeline is rigid: it moves as a whole, and only when the consumer takes the output or the output stage is empty
    h.ensure("ens.ce", b(h.v(d.dec.pipe_ce)) == z3.Or(b(h.v(d.source.ready)), z3.Not(b(h.v(d.source.valid)))))
    h.ensure("ens.ce.enc", b(h.v(d.enc.encoder.ce)) == b(h.v(d.enc.pipe_ce)))
    h.cover("cover.k", z3.And(fire(h, d.source), h.v(d.source.k) != 0, z3.Extract(7, 0, h.v(d.source.d)) == K(0xBC, 8)), depth=6)     # a K28.5 comes out
    h.cover("cover.stall", z3.And(b(h.v(d.source.valid)), z3.Not(b(h.v(d.source.ready))), h.qlen == K(3, h.qlen.size())), depth=8)    # full pipeline stalled
    h.cover("cover.bubble", z3.And(fire(h, d.source), h.qlen == K(2, h.qlen.size()), z3.Not(b(h.v(ve[1])))) if len(ve) == 2 else z3.BoolVal(True), depth=10)   # a bubble between two tokens
    h.functions = ["litex.soc.cores.code_8b10b.StreamEncoder.__init__", "litex.soc.cores.code_8b10b.StreamDecoder.__init__", "litex.soc.cores.code_8b10b.Encoder.__init__",
                   "litex.soc.cores.code_8b10b.SingleEncoder.__init__", "litex.soc.cores.code_8b10b.Decoder.__init__", "litex.soc.interconnect.stream.PipelinedActor.build_binary_control"]
    h.cosim_cycles = 12
    return h

def c_disparity(nwords):
    """StreamEncoder alone: running disparity of the delivered code-word stream"""
    d = mk(c8.StreamEncoder, nwords); enc = d.encoder
    h = HwCheck(f"StreamEncoder({nwords}).disparity", d, ep_inputs(d.sink, d.source))
    X = h.v
    for i in range(nwords):
        h.assume(z3.Implies(b(X(d.sink.valid)), legal(z3.Extract(8 * i + 7, 8 * i, X(d.sink.d)), z3.Extract(i, i, X(d.sink.k)))),
                 "only the 256 data symbols and the 12 defined control symbols are offered to the encoder (while valid is low d/k are arbitrary)")
    producer_holds(h, d.sink)
    singles = [m for _, m in enc._submodules if hasattr(m, "disp_in")]
    ce = b(X(d.pipe_ce)); in_fire, out_fire = fire(h, d.sink), fire(h, d.source)
    rd = X(singles[0].disp_in)                                      # the running disparity register
    W = [X(o) for o in enc.output]; A = [X(x) for x in enc.disparity]
    # ghosts: mirror of the token positions, "contiguous" marks (token accepted in the pipeline step right after its predecessor),
    # the disparity the encoder was in when it produced the word now at the output, and the disparity after the last DELIVERED word
    gv1 = h.ghost("v1", 1); gv2 = h.ghost("v2", 1); c1 = h.ghost("c1", 1); c2 = h.ghost("c2", 1)
    h.ghost_next(gv1, z3.If(ce, X(d.sink.valid), gv1)); h.ghost_next(gv2, z3.If(ce, gv1, gv2))
    h.ghost_next(c1, z3.If(ce, bv1(z3.And(b(X(d.sink.valid)), b(gv1))), c1)); h.ghost_next(c2, z3.If(ce, c1, c2))
    before = h.ghost("rd_before", 1); h.ghost_next(before, z3.If(ce, rd, before))
    bal = h.ghost("rd_delivered", 1); h.ghost_next(bal, z3.If(out_fire, A[-1], bal))
    anyw = h.ghost("any", 1); h.ghost_next(anyw, z3.If(out_fire, K(1, 1), anyw))
    def rule(bef):
        """8b/10b disparity rule over the lanes of the output word, starting from disparity `bef`; the reported disparities follow"""
        cl = []
        for i in range(nwords):
            n1 = ones(W[i]); din = bef if i == 0 else A[i - 1]; dout = A[i]
            cl.append(z3.Or(z3.And(n1 == 5, dout == din), z3.And(n1 == 6, din == K(0, 1), dout == K(1, 1)), z3.And(n1 == 4, din == K(1, 1), dout == K(0, 1))))
        return z3.And(*cl)
    # the LINE: what leaves on source.data, bit 0 first (lane 0 first, each 10-bit lane lsb first - the order the serialisers behind the stream wrappers use).
    # The disparity is recomputed from the bits themselves (no reference to the encoder's internal words or reported disparities): after every
    # lane the running disparity is back within one bit of balance, the last one is the disparity the encoder reports, and no six equal bits in a row
    # occur inside a beat (lane boundaries included).
    SD = X(d.source.data); LN = [z3.Extract(10 * i + 9, 10 * i, SD) for i in range(nwords)]
    def line_rule(bef):
        cl = []; din = bef
        for i in range(nwords):
            n1 = ones(LN[i])
            cl.append(z3.Or(n1 == 5, z3.And(n1 == 6, din == K(0, 1)), z3.And(n1 == 4, din == K(1, 1))))
            din = z3.If(n1 == 6, K(1, 1), z3.If(n1 == 4, K(0, 1), din))
        return z3.And(*cl, din == A[-1])
    def line_run5():
        bits = [z3.Extract(j, j, SD) for j in range(10 * nwords)]
        return z3.And(*[z3.Not(z3.And(*[bits[j + t] == bits[j] for t in range(1, 6)])) for j in range(10 * nwords - 5)])
    ve = _valid_regs(h, "streamencoder")
    adv = advancer(h, d.source.ready)
    if len(ve) == 2:
        h.hint("v1", X(ve[0]) == gv1); h.hint("v2", X(ve[1]) == gv2)
        h.hint("rule@2", z3.Implies(b(gv2), rule(before)))
        h.hint("rule@1", z3.Implies(b(gv1), adv(rule(before))))          # the word the first stage is going to produce obeys the rule
        h.hint("run5@2", z3.Implies(b(gv2), line_run5())); h.hint("run5@1", z3.Implies(b(gv1), adv(line_run5())))
        h.hint("line@2", z3.Implies(b(gv2), line_rule(before))); h.hint("line@1", z3.Implies(b(gv1), adv(line_rule(before))))
    h.hint("rd=last", rd == A[-1])
    h.hint("c1->v", z3.Implies(b(c1), z3.And(b(gv1), b(gv2)))); h.hint("c2->v2", z3.Implies(b(c2), b(gv2)))
    h.hint("contig", z3.Implies(z3.And(b(gv2), b(c2)), before == bal))
    h.ensure("ens.valid", X(d.source.valid) == gv2)
    h.ensure("ens.rd.word", z3.Implies(b(X(d.source.valid)), rule(before)))                             # each delivered word is a legal code word for the disparity the encoder was in
    h.ensure("ens.line.rd", z3.Implies(b(X(d.source.valid)), line_rule(before)))                        # the same, on the bits of source.data in line order
    h.ensure("ens.line.rd.contiguous", z3.Implies(z3.And(out_fire, b(c2)), line_rule(bal)))
    h.ensure("ens.line.run5", z3.Implies(b(X(d.source.valid)), line_run5()))
    h.ensure("ens.rd.stall", z3.Implies(z3.Not(ce), z3.And(h.n(singles[0].disp_in) == rd, *[h.n(x) == X(x) for x in enc.disparity], *[h.n(o) == X(o) for o in enc.output])))
    h.ensure("ens.rd.contiguous", z3.Implies(z3.And(out_fire, b(c2)), rule(bal)))                        # back-to-back symbols: disparity-continuous delivered stream
    # a symbol accepted after an upstream pause: the encoder also ran on the idle cycle(s) (encoder.ce = pipe_ce, not pipe_ce & valid),
    # so whatever was on sink.d/sink.k while valid was low has moved the running disparity
    h.finding("finding.rd-after-pause", z3.Implies(z3.And(out_fire, z3.Not(b(c2)), b(anyw)), rule(bal)),
              "StreamEncoder: the running disparity advances on idle pipeline steps (sink.valid low) with whatever is on sink.d/k, so a code word delivered after an upstream pause may not continue the disparity of the previously delivered word (e.g. two 6-ones words in a row)")
    h.cover("cover.contiguous", z3.And(out_fire, b(c2), ones(W[0]) == 6), depth=8)
    h.cover("cover.pause", z3.And(out_fire, z3.Not(b(c2)), b(anyw)), depth=8)
    h.cover("cover.stall", z3.And(b(X(d.source.valid)), z3.Not(b(X(d.source.ready))), b(gv1)), depth=6)
    h.bmc_depth = 10; h.cosim_cycles = 12
    h.functions = ["litex.soc.cores.code_8b10b.StreamEncoder.__init__", "litex.soc.cores.code_8b10b.Encoder.__init__", "litex.soc.cores.code_8b10b.SingleEncoder.__init__",
                   "litex.soc.interconnect.stream.PipelinedActor.build_binary_control"]
    return h

def cases(tier):
    cs = [Case("StreamEncoder->StreamDecoder(1)", c_roundtrip, 1), Case("StreamEncoder(1).disparity", c_disparity, 1),
          Case("StreamEncoder->StreamDecoder(2)", c_roundtrip, 2), Case("StreamEncoder(2).disparity", c_disparity, 2)]
    if tier == "thorough":
        cs += [Case("StreamEncoder->StreamDecoder(4)", c_roundtrip, 4, timeout=1800), Case("StreamEncoder(4).disparity", c_disparity, 4)]
    return cs

ASSUMPTIONS = ["stream wrappers: only the 256 data symbols and the 12 defined control symbols are offered while sink.valid is high; sink.d/sink.k are unconstrained while valid is low",
               "stream wrappers: the producer holds valid and its token until accepted (C04 precondition); the consumer's ready is unconstrained",
               "line order of StreamEncoder.source.data: bit 0 first (lane 0 first, each lane lsb first), the order of the lsb-first codec the wrappers are built from; ens.line.* recompute the disparity from those bits",
               "running disparity of the delivered stream is checked word by word against the disparity reported after the previously delivered word (resynchronised at every word, so one discontinuity does not mask later ones)"]
