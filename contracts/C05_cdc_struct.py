"""C05 (structural part): every clock-domain crossing of the real elaborated fragment goes through a recognised synchroniser.

STATIC ANALYSIS over the FHDL fragment returned by the real constructor (`get_fragment()`, i.e. after every ClockDomainsRenamer of
the hierarchy has been applied).  Nothing is lowered: MultiReg, AsyncResetSynchronizer and Memory/_MemoryPort stay primitives.
  registers          = targets of `sync.<D>` statements (domain D); output of MultiReg(i, o, odomain) (domain odomain); `dat_r` of a
                       synchronous-read memory port (domain of the port); `rst` of a ClockDomain driven by an AsyncResetSynchronizer (its
                       domain); the cells of a Memory (domain of its write port); `rst` of a domain that the fragment does not define
                       (primary input, assumed synchronous to that domain).
  clock of a domain  = the domain itself, or - when the fragment defines the domain and drives its `clk` by an unconditional plain
                       assignment from ClockSignal(X)/another domain's clk - the root X.  Two domains with one root are synchronous.
  cone of a sampler  = every signal read by the statements that assign it (right-hand sides, enclosing If/Case conditions, array keys,
                       the implicit synchronous reset inserted by migen's own insert_resets), closed backwards through comb statements
                       until registers / declared primary inputs (harness gives their domain, or ASYNC) / undriven constants.

POSTCONDITION (one result per crossing, `xing...`):
  (S) a flip-flop, a memory write port (adr, dat_w, we) and a synchronous memory read port (adr, re) only have leaves of their own
      root clock in their cone.  Any leaf of another clock (or an ASYNC input) reached there is an UNSYNCHRONISED crossing -> violated,
      with the path.
  (M) MultiReg(i -> o, odomain, n>=2) whose cone has foreign leaves:  `i` must be, through unconditional whole-signal copies/slices
      only, ONE register output (no operator between the source flop and the first synchroniser flop: glitch-free);
        width 1  -> ok  "1-bit n-flop synchroniser";
        width >1 -> ok only if  (G) Gray: z3 proves on the real next-state function (vf.fhdl2smt of the same fragment) that, with the
                                    source domain's reset low, the source register changes in at most one bit per source edge, using the
                                    inductive invariant  src == R ^ (R >> 1)  for a same-width register R of the source domain (or no
                                    invariant); or
                                (H) handshake-held: every sync assignment of the source register is guarded, and the guard cone (minus
                                    the domain reset) only contains registers of SYNC(dst->src) = outputs of 1-bit MultiRegs coming from
                                    the destination clock and flops fed only by those (toggle_o_r, ping_o ...);  AND every sampler of the
                                    destination clock that reads `o` is guarded by conditions whose cone lies in SYNC(src->dst) and `o`
                                    is not part of a condition (BusSynchronizer: ibuffer loaded on _pong.o, o loaded on ping_o).
                   otherwise violated (plain multi-bit MultiReg: the word seen after the crossing need never have existed).
  (R) AsyncResetSynchronizer(cd, async_reset): foreign leaves of async_reset are accepted ("reset synchroniser", any comb logic).
  (D) Memory written in one clock and read through a synchronous port of another clock: accepted ("dual-clock memory"); a memory written
      from two clocks is violated; an asynchronous read port passes the cells (write domain) on to whatever samples its data: rule (S).
  (Q) a harness may waive named configuration registers as QUASI-STATIC (result ok, flagged `waived`, reason in the text): used once, for
      the RS232PHY tuning word (a sys-domain CSRStorage) read by the phase accumulators of a PHY renamed into another domain.
RENAMING postconditions (`ens.renaming...`): every register of the fragment is clocked by cd_from or cd_to (none left in sys/write/read),
  the registers in the cone of sink.ready are all in cd_from, those in the cone of source.valid/payload all in cd_to, the memory is
  written in cd_from and read in cd_to; with_common_rst: two reset synchronisers, one per internal domain, both fed by
  ResetSignal(cd_from) | ResetSignal(cd_to), and every resettable register is reset by its side's synchroniser output.
SENSITIVITY (`cover...`): deliberately broken variants built here (MultiReg replaced by a wire, binary instead of Gray pointer, logic in
  front of a synchroniser, unguarded source buffer, direct multi-bit register-to-register crossing, one reset synchroniser or one
  renaming missing) must be reported; a cover is ok exactly when the analysis flags the variant.
FINDINGS on the unchanged tree (kind finding-witness, each read in the source before being classified):
  * stream.Monitor(clock_domain != sys): the latched counts cross to the CSR status words through a plain multi-bit MultiReg; the source is
    held by the synchronised latch pulse, the CSR read is not gated -> rule (M) fails on the destination side only.
  * stream.ClockDomainCrossing(with_common_rst=True): more words delivered than written around a short reset pulse (two-clock model below;
    reproduced on the real simulator by tools/replay_cdc_common_rst_dup.py).
NOTE (informational, kind cover, not a finding: single status bits are outside the statement of C05): uart.UART(phy_cd != sys): txempty /
  rxfull are comb functions of PHY-domain FIFO pointers sampled by the sys CSR read register without synchroniser (rule (S), path in the info).
TWO-CLOCK MODEL (only to give the Monitor finding a concrete witness): the product model of contracts/C05_cdc.py made generic
  (two_clock_bmc: tick_<d> scheduler inputs, per-bit old/new resolution of every first synchroniser flop, drift bound R): a CSR read returns
  a word that _count_latched never held after 6 scheduler steps; the control experiment (same count through the real BusSynchronizer, read
  every sys cycle) has no such trace up to the stated depth (bounded-ok, never counted as proved).
  The same model applied to ClockDomainCrossing(with_common_rst=True) with the reset synchronisers modelled as two asynchronously preset flops:
  a one-cycle reset pulse of either domain makes the crossing deliver more words than were ever written (third finding, RESET_WHAT); without
  reset pulses no such trace exists up to the stated depth (bounded-ok: first bounded check of the real Gray-pointer FIFO in this model).
What is ASSUMED about the recognised patterns is listed in ASSUMPTIONS below."""
import time, collections, z3
from vf import elab
from vf.elab import mk
from vf.fhdl2smt import TS, copy_fragment
from vf.hw import res
from migen import *
from migen.fhdl.structure import _Assign, _Slice, _Operator, _ArrayProxy, _Part, _Fragment, _Value
from migen.fhdl.visit import NodeVisitor
from migen.fhdl.tools import insert_resets, list_clock_domains
from migen.fhdl.specials import Memory, _MemoryPort, Special
from migen.genlib.cdc import MultiReg, PulseSynchronizer
from migen.genlib.resetsync import AsyncResetSynchronizer
from litex.gen import LiteXModule
from litex.soc.interconnect import stream
from vf.core import Case as VCase, PROVED, VIOLATED, OK, VACUOUS, FAULT, UNKNOWN, NOINPUT

import os
_TOOLS = os.path.join(os.path.dirname(os.path.dirname(os.path.abspath(__file__))), "tools")
ASYNC = "<async>"          # declared domain of an asynchronous primary input (pad)

# ------------------------------------------------------------------------------------------------- naming
_TOP = [None]
_SKIP = ("endpoint", "record", "finst", "csrstatus", "csrstorage", "csr", "submodules")
_ORD = {}
def nm(s):
    """hierarchical name from the constructor backtrace, cut at the class under analysis, without the (run-dependent) tracer indices;
    signals of equal name (the two Gray counters of a FIFO) get an ordinal in construction order"""
    return _nm0(s) + _ORD.get(s, "")
def _nm0(s):
    import re
    if s.name_override: return re.sub(r"^(from|to)\d+_", r"\1#_", s.name_override)
    bt = getattr(s, "backtrace", None)
    if not bt: return f"sig{s.duid}"
    names = [n for n, _ in bt]
    if _TOP[0] in names[:-1]: names = names[names.index(_TOP[0]) + 1:]
    parts = []
    for n in names[:-1]:
        if (parts and parts[-1] == n) or n in _SKIP: continue
        parts.append(n)
    if len(parts) > 4: parts = parts[:1] + [".."] + parts[-3:]
    return ".".join(parts + [names[-1]]).replace("....", "..")

def dn(dom):
    """display name of a clock domain: the internal common-reset domains are called from<duid>/to<duid>"""
    import re
    return re.sub(r"^(from|to)\d+$", r"\1#", str(dom))

# ------------------------------------------------------------------------------------------------- the graph
def list_targets(e):
    """signals written by an assignment to expression e (migen's list_targets works on statements only)"""
    if isinstance(e, Signal): return {e}
    if isinstance(e, (_Slice, _Part)): return list_targets(e.value)
    if isinstance(e, Cat): return set().union(*[list_targets(x) for x in e.l]) if e.l else set()
    if isinstance(e, _ArrayProxy): return set().union(*[list_targets(x) for x in e.choices])
    if isinstance(e, (ClockSignal, ResetSignal, Constant)): return set()
    raise NotImplementedError(type(e))
class _Reads(NodeVisitor):
    def __init__(self, cds): self.cds = cds; self.out = set()
    def visit_Signal(self, n): self.out.add(n)
    def visit_ClockSignal(self, n): self.out.add(self.cds[n.cd].clk)
    def visit_ResetSignal(self, n):
        r = self.cds[n.cd].rst
        if r is not None: self.out.add(r)
    def visit_unknown(self, n):
        if isinstance(n, _Part): self.visit(n.value); self.visit(n.offset)

Drv = collections.namedtuple("Drv", "kind dom reads ctrl stmt")
Reg = collections.namedtuple("Reg", "dom kind obj")

class CDCGraph:
    def __init__(self, frag, inputs=None, top=None, quasi_static=None):
        assert isinstance(frag, _Fragment)
        self.quasi_static = dict(quasi_static or {})      # {register: reason}: configuration registers waived BY THE HARNESS (listed in the result)
        _TOP[0] = top.lower() if isinstance(top, str) else (type(top).__name__.lower() if top is not None else None)
        self.frag = frag
        self.inputs = dict(inputs or {})
        f = copy_fragment(frag)
        names = set(list_clock_domains(f))
        defined = {cd.name for cd in f.clock_domains}
        self.external = sorted(names - defined)
        self.ext_cds = [ClockDomain(n) for n in self.external]
        for cd in self.ext_cds: f.clock_domains.append(cd)
        self.cds = {cd.name: cd for cd in f.clock_domains}
        insert_resets(f)
        self.f = f
        self.drv = collections.defaultdict(list)
        self.reg = {}
        self.problems = []
        self.multiregs, self.arss, self.mems, self.others = [], [], [], []
        for sp in sorted(f.specials, key=lambda s: s.duid):
            if isinstance(sp, MultiReg): self.multiregs.append(sp)
            elif isinstance(sp, AsyncResetSynchronizer): self.arss.append(sp)
            elif isinstance(sp, Memory): self.mems.append(sp)
            elif isinstance(sp, _MemoryPort): pass
            else: self.others.append(sp)
        self._walk(f.comb, frozenset(), "comb", None)
        for dom, st in f.sync.items(): self._walk(st, frozenset(), "sync", dom)
        for t, ds in list(self.drv.items()):
            sd = {d.dom for d in ds if d.kind == "sync"}
            if sd:
                if len(sd) > 1 or any(d.kind == "comb" for d in ds): self.problems.append(f"{nm(t)} driven from {sorted(map(str, sd))} and/or comb")
                self.reg[t] = Reg(sorted(sd)[0], "ff", None)
        for m in self.multiregs:
            for t in list_targets(m.o): self.reg[t] = Reg(m.odomain, "multireg", m)
        for a in self.arss:
            self.reg[a.cd.rst] = Reg(a.cd.name, "rstsync", a)
        for cd in self.ext_cds:
            if cd.rst is not None: self.reg[cd.rst] = Reg(cd.name, "extrst", cd)
            self.reg[cd.clk] = Reg(cd.name, "extclk", cd)
        self.cells = {}
        for mem in self.mems:
            wd = sorted({p.clock.cd for p in mem.ports if p.we is not None})
            cells = Signal(mem.width, name_override=f"{mem.name_override}_cells")
            self.cells[mem] = cells
            if wd: self.reg[cells] = Reg(wd[0], "memcells", mem)
            for p in mem.ports:
                if p.async_read:
                    self.drv[p.dat_r].append(Drv("comb", None, frozenset(self.rd(p.adr) | {cells}), frozenset(), p))
                else:
                    self.reg[p.dat_r] = Reg(p.clock.cd, "memread", p)
        self._root = {}
        self.undeclared = set()
        _ORD.clear()
        byname = collections.defaultdict(list)
        allsigs = set(self.reg) | set(self.drv) | set(self.inputs)
        for ds in self.drv.values():
            for d in ds: allsigs |= d.reads | d.ctrl
        for x in allsigs: byname[_nm0(x)].append(x)
        for n, l in byname.items():
            if len(l) > 1:
                for k, x in enumerate(sorted(l, key=lambda x: x.duid)): _ORD[x] = f"'{k + 1}"

    def memname(self, mem):
        return nm(mem.ports[0].dat_r).rsplit(".", 1)[0] + f".{mem.name_override}[{mem.width}x{mem.depth}]" if mem.ports else mem.name_override

    def rd(self, e):
        if e is None: return set()
        r = _Reads(self.cds); r.visit(e); return r.out

    def _walk(self, stmts, ctrl, kind, dom):
        for s in stmts:
            if isinstance(s, _Assign):
                tg = list_targets(s.l)
                reads = self.rd(s.r) | (self.rd(s.l) - tg)
                for t in tg: self.drv[t].append(Drv(kind, dom, frozenset(reads), ctrl, s))
            elif isinstance(s, If):
                c = ctrl | self.rd(s.cond)
                self._walk(s.t, c, kind, dom); self._walk(s.f, c, kind, dom)
            elif isinstance(s, Case):
                c = ctrl | self.rd(s.test)
                for k, v in s.cases.items(): self._walk(v, c, kind, dom)
            elif isinstance(s, (list, tuple)): self._walk(s, ctrl, kind, dom)
            elif isinstance(s, (Display, Finish)): pass
            else: raise NotImplementedError(type(s))

    # ---- clocks
    def root(self, dom):
        if dom in self._root: return self._root[dom]
        cur, seen = dom, set()
        while cur not in seen:
            seen.add(cur)
            cd = self.cds.get(cur)
            if cd is None: break
            ds = self.drv.get(cd.clk, [])
            if len(ds) == 1 and ds[0].kind == "comb" and not ds[0].ctrl and ds[0].stmt.l is cd.clk:
                r = ds[0].stmt.r
                if isinstance(r, ClockSignal): cur = r.cd; continue
                if isinstance(r, Signal):
                    o = [c.name for c in self.cds.values() if c.clk is r]
                    if o: cur = o[0]; continue
            break
        self._root[dom] = cur
        return cur

    def dom_of(self, leaf):
        if leaf in self.reg: return self.reg[leaf].dom
        if leaf in self.inputs: return self.inputs[leaf]
        return None                      # undriven and undeclared: constant at its reset value

    # ---- cones
    def leaves(self, sigs):
        """{leaf: path}: backwards closure through comb drivers; path = signals from the start signal to the leaf"""
        out, seen = {}, set()
        stack = [(s, (s,)) for s in sorted(sigs, key=lambda x: x.duid)]
        while stack:
            s, path = stack.pop()
            if s in seen: continue
            seen.add(s)
            ds = self.drv.get(s)
            if s in self.reg or not ds:
                out[s] = path
                if s not in self.reg and s not in self.inputs: self.undeclared.add(s)
                continue
            for d in ds:
                for x in sorted(d.reads | d.ctrl, key=lambda x: x.duid): stack.append((x, path + (x,)))
        return out

    def base(self, e):
        """the single register / primary input that expression e copies (whole-signal unconditional copies and slices only), else None"""
        for _ in range(64):
            if isinstance(e, _Slice): e = e.value; continue
            if isinstance(e, ResetSignal): e = self.cds[e.cd].rst; continue
            if isinstance(e, Signal):
                ds = self.drv.get(e, [])
                if e in self.reg or not ds: return e
                if len(ds) == 1 and ds[0].kind == "comb" and not ds[0].ctrl and ds[0].stmt.l is e: e = ds[0].stmt.r; continue
                return None
            return None
        return None

    def ff_inputs(self, r):
        s = set()
        for d in self.drv[r]: s |= d.reads | d.ctrl
        return s

    def rst_leaves(self, dom):
        cd = self.cds.get(dom)
        return set(self.leaves({cd.rst})) if cd is not None and cd.rst is not None else set()

    def samplers(self):
        """(name, domain, kind, data signals, control signals, object)"""
        for r, g in sorted(self.reg.items(), key=lambda kv: kv[0].duid):
            if g.kind == "ff":
                yield nm(r), g.dom, "flip-flop", r, set().union(*[d.reads for d in self.drv[r]]), set().union(*[d.ctrl for d in self.drv[r]])
        for mem in self.mems:
            for i, p in enumerate(mem.ports):
                if p.we is not None:
                    yield f"{self.memname(mem)}.wrport{i}", p.clock.cd, "memory write port", p, self.rd(p.dat_w), self.rd(p.adr) | self.rd(p.we)
                if not p.async_read:
                    yield f"{self.memname(mem)}.rdport{i}", p.clock.cd, "memory read port", p, set(), self.rd(p.adr) | self.rd(p.re)

    def foreign(self, lv, dom):
        """leaves of another clock than dom's (ASYNC included)"""
        r = self.root(dom); out = []
        for l, path in lv.items():
            d = self.dom_of(l)
            if d is None: continue
            if d == ASYNC or self.root(d) != r: out.append((l, d, path))
        return sorted(out, key=lambda t: t[0].duid)

    # ---- SYNC(frm -> to): registers of clock `to` that only carry synchronised single-bit information from clock `frm`
    def sync_set(self, to_root, frm_root):
        S = set()
        for m in self.multiregs:
            if len(m.i) != 1 or self.root(m.odomain) != to_root: continue
            b = self.base(m.i)
            if b is None: continue
            d = self.dom_of(b)
            if d is not None and d != ASYNC and self.root(d) == frm_root: S |= set(list_targets(m.o))
        changed = True
        while changed:
            changed = False
            for r, g in self.reg.items():
                if g.kind != "ff" or r in S or self.root(g.dom) != to_root: continue
                lv = set(self.leaves(self.ff_inputs(r))) - self.rst_leaves(g.dom) - {r}
                lv = {l for l in lv if self.dom_of(l) is not None}
                if lv and lv <= S: S.add(r); changed = True
        return S

    # ---- semantic part: Gray
    def ts(self):
        if not hasattr(self, "_ts"):
            f = copy_fragment(self.frag)
            for cd in self.ext_cds: f.clock_domains.append(cd)
            self._ts = TS(f)
        return self._ts

    def gray_proof(self, S):
        """z3: with the source domain's reset low the register S changes in at most one bit per edge of its clock"""
        t0 = time.time()
        dom = self.reg[S].dom
        try: ts = self.ts()
        except Exception as e: return False, f"extraction failed: {type(e).__name__}: {e}", time.time() - t0
        nxt = ts.next.get(dom, {})
        if S not in nxt: return False, "no next-state function", time.time() - t0
        v = ts.var
        comb = [v[t] == e for t, e in ts.comb_eq.items()]
        cd = self.cds[dom]
        if cd.rst is not None and cd.rst in v: comb.append(v[cd.rst] == 0)
        w = S.nbits
        def gray(x): return x ^ z3.LShR(x, 1)
        d = v[S] ^ nxt[S]
        onebit = (d & (d - 1)) == 0
        cands = [(None, z3.BoolVal(True), z3.BoolVal(True), True)]
        for R, g in sorted(self.reg.items(), key=lambda kv: kv[0].duid):
            if g.kind == "ff" and g.dom == dom and R is not S and R.nbits == w and R in nxt:
                cands.append((R, v[S] == gray(v[R]), nxt[S] == gray(nxt[R]), S.reset.value == (R.reset.value ^ (R.reset.value >> 1))))
        for R, inv, inv1, base_ok in cands:
            if not base_ok: continue
            s = z3.Solver(); s.set("timeout", 60000)
            s.add(*comb); s.add(inv); s.add(z3.Not(z3.And(inv1, onebit)))
            if s.check() == z3.unsat:
                return True, ("no invariant needed" if R is None else f"inductive invariant {nm(S)} == gray({nm(R)})"), time.time() - t0
        # witness of a multi-bit change (any state of the source domain, reset low)
        s = z3.Solver(); s.set("timeout", 60000); s.add(*comb); s.add(z3.Not(onebit))
        wit = ""
        if s.check() == z3.sat:
            m = s.model(); wit = f"e.g. {nm(S)}: {m.eval(v[S], model_completion=True)} -> {m.eval(nxt[S], model_completion=True)} in one edge"
        return False, "more than one bit can change per edge " + wit, time.time() - t0

    # ---- handshake pattern
    def handshake(self, m, S):
        src_dom = self.reg[S].dom; sr, dr = self.root(src_dom), self.root(m.odomain)
        why = []
        # (a) source register only loaded under a synchronised pulse coming from the destination clock
        back = self.sync_set(sr, dr)
        ok_a = self.reg[S].kind == "ff"
        guards = set()
        if ok_a:
            rl = self.rst_leaves(src_dom)
            for d in self.drv[S]:
                g = {l for l in self.leaves(d.ctrl) if self.dom_of(l) is not None} - rl if d.ctrl else set()
                if not d.ctrl or (g and not g <= back): ok_a = False; why.append(f"source {nm(S)} loaded " + ("unconditionally" if not d.ctrl else f"under {sorted(nm(x) for x in g - back)} which is not a synchronised {dr}->{sr} pulse"))
                guards |= g
            if ok_a and not guards: ok_a = False; why.append(f"source {nm(S)} has no load enable")
        else: why.append(f"source {nm(S)} is not a flip-flop of the fragment")
        # (b) every sampler of the destination clock reading o is guarded by a synchronised pulse coming from the source clock
        fwd = self.sync_set(dr, sr)
        O = set(list_targets(m.o)); ok_b = True; users = []
        for name, dom, kind, obj, data, ctrl in self.samplers():
            lc = self.leaves(ctrl); ld = self.leaves(data)
            if not (O & (set(lc) | set(ld))): continue
            users.append(name)
            if O & set(lc): ok_b = False; why.append(f"{name} uses the crossed word in a condition"); continue
            if kind != "flip-flop": ok_b = False; why.append(f"{name} ({kind}) reads the crossed word"); continue
            rl = self.rst_leaves(dom)
            for d in self.drv[obj]:
                if not (O & set(self.leaves(d.reads))): continue
                g = {l for l in self.leaves(d.ctrl) if self.dom_of(l) is not None} - rl
                if not d.ctrl or not g or not g <= fwd:
                    ok_b = False; why.append(f"{name} captures the crossed word " + ("every cycle" if not g else f"under {sorted(nm(x) for x in g - fwd)} which is not a synchronised {sr}->{dr} pulse"))
        info = dict(source_load_enable=sorted(nm(x) for x in guards), destination_samplers=users)
        return ok_a, ok_b, why, info

    # ---- the contract
    def analyse(self):
        """list of dict(name, status, pattern, ...) - one per crossing"""
        out = []
        def add(name, status, pattern, t=0.0, backend="static analysis of the real fragment", **kw):
            out.append(dict(name=name, status=status, pattern=pattern, secs=t, backend=backend, **kw))
        for p in self.problems: add(f"xing.malformed[{p}]", VIOLATED, "register driven from two domains")
        for sp in self.others: add(f"xing.unsupported-special[{type(sp).__name__}]", UNKNOWN, "special not modelled")
        # (S) samplers
        for name, dom, kind, obj, data, ctrl in self.samplers():
            lv = self.leaves(data | ctrl)
            for l, d, path in self.foreign(lv, dom):
                via = f" via {nm(path[0])}" if len(path) > 1 else ""
                if l in self.quasi_static:
                    add(f"xing[{dn(d)}->{dn(dom)}] {nm(l)} -> {name}{via}", OK, f"QUASI-STATIC configuration register read without synchroniser, waived by the harness: {self.quasi_static[l]}",
                        path=" <- ".join(nm(x) for x in path), width=l.nbits, waived=True); continue
                add(f"xing[{dn(d)}->{dn(dom)}] {nm(l)} -> {name}{via}", VIOLATED, f"UNSYNCHRONISED: {kind} of domain {dom} samples {self.reg[l].kind if l in self.reg else 'input'} {nm(l)} of domain {d}",
                    path=" <- ".join(nm(x) for x in path), width=l.nbits)
        # (D) memories
        for mem in self.mems:
            wd = sorted({p.clock.cd for p in mem.ports if p.we is not None})
            if len({self.root(d) for d in wd}) > 1:
                add(f"xing[{'+'.join(map(dn, wd))}] {self.memname(mem)} written from two clocks", VIOLATED, "memory written from two clock domains")
            for i, p in enumerate(mem.ports):
                if wd and self.root(p.clock.cd) != self.root(wd[0]):
                    if p.async_read: continue          # cells reach the samplers through the comb read data: handled by (S)
                    add(f"xing[{dn(wd[0])}->{dn(p.clock.cd)}] {self.memname(mem)} -> rdport{i}", OK, "dual-clock memory (written in one domain, synchronous read port in the other)", width=mem.width)
        # (M) synchronisers
        for m in self.multiregs:
            lv = self.leaves(self.rd(m.i)); fg = self.foreign(lv, m.odomain)
            if not fg: continue
            w = len(m.i); oname = "/".join(nm(t) for t in list_targets(m.o))
            b = self.base(m.i)
            srcs = ",".join(sorted({dn(d) for _, d, _ in fg}))
            name = f"xing[{srcs}->{dn(m.odomain)}] {nm(b) if b is not None else '(' + ' '.join(sorted(nm(l) for l, _, _ in fg)) + ')'} -> MultiReg -> {oname}"
            if m.n < 2: add(name, VIOLATED, f"MultiReg with n={m.n} < 2 stages", width=w); continue
            if b is None:
                add(name, VIOLATED, "combinational logic between the source register(s) and the first synchroniser flop (glitches are sampled)", width=w,
                    path="; ".join(" <- ".join(nm(x) for x in p) for _, _, p in fg)); continue
            if len(fg) > 1 or fg[0][0] is not b:
                add(name, VIOLATED, "synchroniser input is not one single source register", width=w); continue
            if self.dom_of(b) == ASYNC or b not in self.reg:
                add(name, OK if w == 1 else VIOLATED, f"{w}-bit {'asynchronous' if self.dom_of(b) == ASYNC else 'foreign'} primary input through a {m.n}-flop synchroniser", width=w); continue
            if w == 1:
                add(name, OK, f"1-bit {m.n}-flop synchroniser fed directly by a register output", width=1); continue
            okg, how, t = self.gray_proof(b)
            if okg:
                add(name, PROVED, f"{w}-bit Gray-coded register through a {m.n}-flop synchroniser ({how}; at most one bit changes per source edge while the source reset is low)", t, "z3 on the extracted next-state function", width=w); continue
            oa, ob, why, info = self.handshake(m, b)
            if oa and ob:
                add(name, OK, f"{w}-bit word held under a request/acknowledge handshake: source loaded only on a synchronised pulse from the destination clock, destination captures only on a synchronised pulse from the source clock", t, width=w, **info); continue
            add(name, VIOLATED, f"{w}-bit word through a plain MultiReg: not Gray ({how}) and not handshake-held ({'; '.join(why)})", t, width=w,
                source_held_by_synchronised_pulse=oa, destination_capture_gated=ob, **info)
        # (R) reset synchronisers
        for a in self.arss:
            lv = self.leaves(self.rd(a.async_reset)); fg = self.foreign(lv, a.cd.name)
            for d in sorted({d for _, d, _ in fg}):
                add(f"xing[{dn(d)}->{dn(a.cd.name)}] {' '.join(sorted(nm(l) for l, dd, _ in fg if dd == d))} -> AsyncResetSynchronizer -> {nm(a.cd.rst)}", OK,
                    "reset synchroniser (asynchronous assertion, release synchronised to the destination clock)", width=1)
        # unique names
        seen = collections.Counter()
        for o in out:
            seen[o["name"]] += 1
            if seen[o["name"]] > 1: o["name"] += f" #{seen[o['name']]}"
        return out

    def register_domains(self):
        d = collections.defaultdict(list)
        for r, g in self.reg.items():
            if g.kind in ("ff", "multireg", "memread", "memcells", "rstsync"): d[g.dom].append(r)
        return d

def to_results(xs):
    return [res(x["name"], "ensures", x["status"], x.get("secs", 0), x["backend"], **{k: v for k, v in x.items() if k not in ("name", "status", "secs", "backend")}) for x in xs]

def ep(endpoint, dom, g=None):
    g = {} if g is None else g
    for s, _ in endpoint.iter_flat(): g[s] = dom
    return g

def summary(g, xs, t0, expect_min=1):
    """vacuity guard of a case: the analysis saw registers in >= 2 clocks and found crossings"""
    rd = g.register_domains()
    roots = sorted({g.root(d) for d in rd} | {g.root(d) for d in g.inputs.values() if d != ASYNC})
    n = len(xs)
    return res(f"cover.crossings-found[{n} crossings, clocks {roots}]", "cover", OK if len(roots) >= 2 and n >= expect_min else VACUOUS, time.time() - t0, "static analysis",
               registers={dn(d): len(v) for d, v in rd.items()}, undeclared_undriven=sorted(nm(s) for s in g.undeclared)[:40])

# ------------------------------------------------------------------------------------------------- renaming / reset postconditions
def renaming_results(g, d, cd_from, cd_to, common_rst=False):
    out = []
    rd = g.register_domains()
    rf, rt = g.root(cd_from), g.root(cd_to)
    if common_rst:
        internal = sorted(n for n in rd if n not in (cd_from, cd_to))
        frm = [n for n in internal if g.root(n) == rf]; to = [n for n in internal if g.root(n) == rt]
        ok = len(frm) == 1 and len(to) == 1 and set(rd) == set(frm + to) and frm[0] != to[0]
        out.append(res("ens.renaming.every-register-in-the-two-internal-domains-clocked-by-cd_from/cd_to", "ensures", PROVED if ok else VIOLATED, 0, "static analysis", info=f"register domains {({k: len(v) for k, v in rd.items()})}, roots {({n: g.root(n) for n in rd})}"))
        wdom, rdom = (frm[0] if frm else None), (to[0] if to else None)
    else:
        ok = set(rd) == {cd_from, cd_to}
        out.append(res("ens.renaming.every-register-in-cd_from-or-cd_to(no sys/write/read left)", "ensures", PROVED if ok else VIOLATED, 0, "static analysis", info=f"register domains {({k: len(v) for k, v in rd.items()})}"))
        wdom, rdom = cd_from, cd_to
    def regs_of(sigs): return {l for l in g.leaves(set(sigs)) if l in g.reg and g.reg[l].kind not in ("extrst", "extclk")}
    wside = regs_of([d.sink.ready]); rside = regs_of([d.source.valid] + [s for s, _ in d.source.payload.iter_flat()] + [d.source.first, d.source.last])
    okw = bool(wside) and all(g.reg[r].dom == wdom for r in wside); okr = bool(rside) and all(g.reg[r].dom == rdom for r in rside)
    out.append(res("ens.renaming.sink.ready-depends-only-on-write-domain-registers", "ensures", PROVED if okw else VIOLATED, 0, "static analysis", info=f"{sorted((nm(r), g.reg[r].dom) for r in wside)}"))
    out.append(res("ens.renaming.source.valid/payload-depend-only-on-read-domain-registers", "ensures", PROVED if okr else VIOLATED, 0, "static analysis", info=f"{sorted((nm(r), g.reg[r].dom) for r in rside)}"))
    okm = bool(g.mems) and all({p.clock.cd for p in m.ports if p.we is not None} == {wdom} and {p.clock.cd for p in m.ports if p.we is None} == {rdom} for m in g.mems)
    out.append(res("ens.renaming.memory-written-in-cd_from-read-in-cd_to", "ensures", PROVED if okm else VIOLATED, 0, "static analysis"))
    if common_rst:
        ars = g.arss
        okn = len(ars) == 2 and {a.cd.name for a in ars} == {wdom, rdom}
        want = {g.cds[cd_from].rst, g.cds[cd_to].rst}
        okc = okn and all(set(g.leaves(g.rd(a.async_reset))) == want for a in ars)
        out.append(res("ens.common_rst.one-reset-synchroniser-per-side,each-fed-by-rst(cd_from)|rst(cd_to)", "ensures", PROVED if okc else VIOLATED, 0, "static analysis",
                       info=f"{[(a.cd.name, sorted(nm(x) for x in g.leaves(g.rd(a.async_reset)))) for a in ars]}"))
        # every resettable register is reset by its side's synchroniser output and by nothing else
        bad = []
        for r, gg in g.reg.items():
            if gg.kind == "ff" and not r.reset_less:
                rl = g.rst_leaves(gg.dom)
                if rl != {g.cds[gg.dom].rst} or g.reg.get(g.cds[gg.dom].rst, Reg(None, None, None)).kind != "rstsync": bad.append(nm(r))
        out.append(res("ens.common_rst.every-resettable-register-reset-by-its-side's-synchroniser", "ensures", PROVED if okn and not bad else VIOLATED, 0, "static analysis", info=f"not so: {bad}"))
    return out

FN_STREAM = ["litex.soc.interconnect.stream.ClockDomainCrossing.__init__", "litex.soc.interconnect.stream.AsyncFIFO.__init__", "litex.soc.interconnect.stream._FIFOWrapper.__init__",
             "migen.genlib.fifo.AsyncFIFO/AsyncFIFOBuffered/GrayCounter (structure and Gray step only)"]

# ------------------------------------------------------------------------------------------------- cases on the real classes
def c_stream_cdc(depth, buffered, common_rst, width=8, with_param=False):
    t0 = time.time()
    layout = [("data", width)] if not with_param else stream.EndpointDescription([("data", width)], [("tag", 3), ("dest", 2)])      # params travel through the crossing like the payload
    d = mk(stream.ClockDomainCrossing, layout, "a", "b", depth, buffered, common_rst)
    g = CDCGraph(d.get_fragment(), ep(d.source, "b", ep(d.sink, "a")), top=d)
    xs = g.analyse()
    out = to_results(xs) + renaming_results(g, d, "a", "b", common_rst)
    out.append(summary(g, xs, t0, 5 if common_rst else 3))
    return dict(results=out, functions=FN_STREAM)

def c_asyncfifo(depth, buffered, width=8):
    """stream.AsyncFIFO renamed by the caller, as uart._get_uart_fifo and ClockDomainCrossing do"""
    t0 = time.time()
    fifo = mk(stream.AsyncFIFO, [("data", width)], depth, buffered)
    d = ClockDomainsRenamer({"write": "w", "read": "r"})(fifo)
    g = CDCGraph(d.get_fragment(), ep(fifo.source, "r", ep(fifo.sink, "w")), top=fifo)
    xs = g.analyse()
    out = to_results(xs) + renaming_results(g, fifo, "w", "r")
    out.append(summary(g, xs, t0, 3))
    return dict(results=out, functions=FN_STREAM)

def c_asyncfifo_unrenamed():
    """without a renamer the two sides are in the domains 'write' and 'read' (never sys)"""
    t0 = time.time()
    fifo = mk(stream.AsyncFIFO, [("data", 8)], 4)
    g = CDCGraph(fifo.get_fragment(), ep(fifo.source, "read", ep(fifo.sink, "write")), top=fifo)
    xs = g.analyse()
    out = to_results(xs) + renaming_results(g, fifo, "write", "read")
    out.append(summary(g, xs, t0, 3))
    return dict(results=out, functions=FN_STREAM)

def c_axil_cdc():
    from litex.soc.interconnect.axi import AXILiteInterface, AXILiteClockDomainCrossing
    t0 = time.time()
    m = AXILiteInterface(data_width=32, address_width=16); s = AXILiteInterface(data_width=32, address_width=16)
    d = mk(AXILiteClockDomainCrossing, m, s, "a", "b")
    ins = {}
    for ch in ("aw", "w", "ar"): ep(getattr(m, ch), "a", ins); ep(getattr(s, ch), "b", ins)
    for ch in ("b", "r"): ep(getattr(m, ch), "a", ins); ep(getattr(s, ch), "b", ins)
    g = CDCGraph(d.get_fragment(), ins, top=d)
    xs = g.analyse()
    out = to_results(xs)
    rd = g.register_domains()
    out.append(res("ens.renaming.every-register-in-cd_from-or-cd_to(no sys/write/read left)", "ensures", PROVED if set(rd) == {"a", "b"} else VIOLATED, 0, "static analysis", info=f"{({k: len(v) for k, v in rd.items()})}"))
    # per channel: the master-side handshake outputs depend on registers of a only, the slave-side ones on registers of b only
    def regdoms(sigs): return {g.reg[l].dom for l in g.leaves(set(sigs)) if l in g.reg and g.reg[l].kind not in ("extrst", "extclk")}
    okm = regdoms([m.aw.ready, m.w.ready, m.ar.ready, m.b.valid, m.r.valid, m.r.data, m.r.resp, m.b.resp]) == {"a"}
    oks = regdoms([s.aw.valid, s.w.valid, s.ar.valid, s.b.ready, s.r.ready, s.aw.addr, s.w.data, s.w.strb, s.ar.addr]) == {"b"}
    out.append(res("ens.renaming.master-side-outputs-from-cd_from-registers,slave-side-outputs-from-cd_to-registers", "ensures", PROVED if okm and oks else VIOLATED, 0, "static analysis"))
    dirs = collections.Counter()
    for mem in g.mems:
        w = [p.clock.cd for p in mem.ports if p.we is not None]; r = [p.clock.cd for p in mem.ports if p.we is None]
        dirs[(w[0], r[0])] += 1
    out.append(res("ens.three-channels-cross-from->to(AW,W,AR),two-cross-to->from(B,R)", "ensures", PROVED if dirs == {("a", "b"): 3, ("b", "a"): 2} else VIOLATED, 0, "static analysis", info=str(dict(dirs))))
    out.append(summary(g, xs, t0, 15))
    return dict(results=out, functions=["litex.soc.interconnect.axi.axi_lite.AXILiteClockDomainCrossing.__init__"] + FN_STREAM)

def c_bussync(width, timeout=128):
    from litex.gen.genlib.cdc import BusSynchronizer
    t0 = time.time()
    d = mk(BusSynchronizer, width, "i", "o", timeout)
    g = CDCGraph(d.get_fragment(), {d.i: "i"}, top=d)
    xs = g.analyse()
    out = to_results(xs)
    rd = g.register_domains()
    out.append(res("ens.renaming.every-register-in-idomain-or-odomain", "ensures", PROVED if set(rd) <= {"i", "o"} and "o" in rd else VIOLATED, 0, "static analysis", info=f"{({k: len(v) for k, v in rd.items()})}"))
    if width > 1:
        # the time-out counter and the starter live in the source domain, o and ping_o in the destination domain
        tmo = {g.reg[l].dom for l in g.leaves({d._timeout.done}) if l in g.reg and g.reg[l].kind == "ff"}
        out.append(res("ens.renaming.retry-time-out-counter-in-idomain,o-in-odomain", "ensures", PROVED if tmo == {"i"} and g.reg[d.o].dom == "o" else VIOLATED, 0, "static analysis"))
    out.append(summary(g, xs, t0, 1 if width == 1 else 3))
    return dict(results=out, functions=["litex.gen.genlib.cdc.BusSynchronizer.__init__", "migen.genlib.cdc.PulseSynchronizer.__init__ (structure)"])

def c_pulsesync():
    t0 = time.time()
    d = mk(PulseSynchronizer, "i", "o")
    g = CDCGraph(d.get_fragment(), {d.i: "i"}, top=d)
    xs = g.analyse()
    out = to_results(xs)
    rd = g.register_domains()
    out.append(res("ens.toggle-register-in-idomain,synchroniser-and-edge-detector-in-odomain", "ensures", PROVED if {k: len(v) for k, v in rd.items()} == {"i": 1, "o": 2} else VIOLATED, 0, "static analysis", info=f"{({k: len(v) for k, v in rd.items()})}"))
    out.append(summary(g, xs, t0, 1))
    return dict(results=out, functions=["migen.genlib.cdc.PulseSynchronizer.__init__ (structure)"])

def _bank(mod, csrs):
    from litex.soc.interconnect import csr_bus
    mod.bus = csr_bus.Interface(data_width=32, address_width=14)
    mod.bank = csr_bus.CSRBank(csrs, address=0, bus=mod.bus)
    return {mod.bus.adr: "sys", mod.bus.we: "sys", mod.bus.re: "sys", mod.bus.dat_w: "sys"}

def finding(x, what, replay=None):
    """a crossing of the unchanged tree that no recognised pattern justifies and that was judged genuine after reading the code"""
    name = "finding." + x["name"].replace("[", "(").replace("]", ")")
    return res(name, "finding-witness", VIOLATED, x.get("secs", 0), x["backend"], what=what, replay=replay, **{k: v for k, v in x.items() if k not in ("name", "status", "secs", "backend")})

MONITOR_WHAT = ("stream.Monitor(clock_domain != sys): each latched count (count_width bits) crosses to its CSR status word through a plain 2-flop MultiReg. The source register "
                "_count_latched is loaded only on the synchronised latch/reset pulse, but nothing on the sys side gates the CSR read: while the new count passes the synchroniser "
                "(one sys cycle, a few mon+sys cycles after the latch CSR write) the status word can be a per-bit mix of the previous and the new latched count, i.e. a word that "
                "_count_latched never held, and software has no indication of when the latch has taken effect. Model-level witness in the two-clock product model with per-bit old/new "
                "resolution of the first synchroniser flops; the real simulator has no metastability model, so a native run (tools/replay_cdc_monitor_torn.py) can only reproduce the hazard "
                "condition: a multi-bit change of _count_latched at the very instant the first MultiReg flop samples it, followed by an ungated CSR read")
UART_WHAT = ("uart.UART(phy_cd != sys): the CSR status bits txempty (= ~tx_fifo.source.valid) and rxfull (= ~rx_fifo.sink.ready) are taken from the PHY side of the asynchronous FIFOs: "
             "they are combinational functions of PHY-domain Gray pointers (multi-bit comparison, glitches included) and are sampled by the sys-domain CSR read register without any "
             "synchroniser; txfull/rxempty and both event triggers are correctly taken from the sys side, and the stream data path itself is not affected")
def c_monitor(count_width=32, counters=("tokens", "overflows", "underflows", "packets")):
    """stream.Monitor(clock_domain='mon') behind the real CSRBank that reads its status registers from sys"""
    t0 = time.time()
    class Top(LiteXModule):
        def __init__(self):
            self.endpoint = stream.Endpoint([("data", 8)])
            self.mon = stream.Monitor(self.endpoint, count_width=count_width, clock_domain="mon", **{f"with_{c}": True for c in counters})
            self.ins = _bank(self, self.mon.get_csrs())
    d = mk(Top)
    ins = dict(d.ins); ep(d.endpoint, "mon", ins); ins[d.mon.reset] = "sys"; ins[d.mon.latch] = "sys"
    g = CDCGraph(d.get_fragment(), ins, top="top")
    xs = g.analyse()
    out = []
    for x in xs:
        if x["status"] == VIOLATED and "count_latched" in x["name"] and x.get("source_held_by_synchronised_pulse") and not x.get("destination_capture_gated"):
            out.append(finding(x, MONITOR_WHAT, _TOOLS + "/replay_cdc_monitor_torn.py"))
        else: out += to_results([x])
    rd = g.register_domains()
    out.append(res("ens.renaming.counters-in-clock_domain,CSR-side-in-sys", "ensures", PROVED if set(rd) == {"mon", "sys"} else VIOLATED, 0, "static analysis", info=f"{({k: len(v) for k, v in rd.items()})}"))
    # the count and latch registers are clocked by clock_domain, the command toggles by sys
    cnt = [r for r, gg in g.reg.items() if gg.kind == "ff" and r.nbits == count_width and r is not d.bus.dat_r]
    tog = [m for m in g.multiregs if len(m.i) == 1]
    okc = len(cnt) == 2 * len(counters) and all(g.reg[r].dom == "mon" for r in cnt) and len(tog) == 2 and all(g.base(m.i) in g.reg and g.reg[g.base(m.i)].dom == "sys" and m.odomain == "mon" for m in tog)       # the source of each crossing flop chain is ONE sys register (a toggle), not combinational logic
    out.append(res("ens.renaming.count/latch-registers-in-clock_domain,reset/latch-pulses-cross-sys->clock_domain", "ensures", PROVED if okc else VIOLATED, 0, "static analysis"))
    out.append(summary(g, xs, t0, 2 + len(counters)))
    return dict(results=out, functions=["litex.soc.interconnect.stream.Monitor.__init__", "litex.soc.interconnect.csr_bus.CSRBank.__init__ (as the sampler of the status words)"])

def _mem_dirs(g):
    c = collections.Counter()
    for mem in g.mems:
        w = [p.clock.cd for p in mem.ports if p.we is not None]; r = [p.clock.cd for p in mem.ports if p.we is None]
        c[(w[0], r[0])] += 1
    return c

def c_uart_phy_cd(depth=8):
    """uart.UART(phy, phy_cd='phy') with the RS232 PHY renamed into the phy domain, behind the real CSRBank"""
    from litex.soc.cores.uart import UART, RS232PHY
    t0 = time.time()
    class Top(LiteXModule):
        def __init__(self):
            self.pads = Record([("tx", 1), ("rx", 1)])
            self.phy = ClockDomainsRenamer("phy")(RS232PHY(self.pads, 50e6, 115200))
            self.uart = UART(self.phy, tx_fifo_depth=depth, rx_fifo_depth=depth, phy_cd="phy")
            self.ins = _bank(self, self.uart.get_csrs())
    d = mk(Top)
    ins = dict(d.ins); ins[d.pads.rx] = ASYNC
    g = CDCGraph(d.get_fragment(), ins, top="top")
    xs = g.analyse()
    out = []; grouped = collections.OrderedDict()
    for x in xs:
        flag = [fl for fl in ("txempty", "rxfull") if fl + ".status" in x.get("path", "")]
        if x["status"] == VIOLATED and x["pattern"].startswith("UNSYNCHRONISED") and flag and "bus_dat_r" in x["name"]: grouped.setdefault(flag[0], []).append(x)
        else: out += to_results([x])
    for flag, l in grouped.items():       # informational only (single status bits are outside the statement of C05): one note per flag, with the paths
        out.append(res(f"note.unsynchronised-status-bit(phy->sys) UART.{flag}.status -> CSR read register bus_dat_r", "cover", OK, 0, l[0]["backend"],
                       info=UART_WHAT + " | paths: " + " || ".join(x["path"] for x in l), pattern=l[0]["pattern"], sources=[x["name"].split(" -> ")[0].split(" ", 1)[1] for x in l]))
    rd = g.register_domains()
    out.append(res("ens.renaming.every-register-in-sys-or-phy_cd(no write/read left)", "ensures", PROVED if set(rd) == {"sys", "phy"} else VIOLATED, 0, "static analysis", info=f"{({k: len(v) for k, v in rd.items()})}"))
    out.append(res("ens.tx-fifo-written-in-sys-read-in-phy_cd,rx-fifo-written-in-phy_cd-read-in-sys", "ensures", PROVED if _mem_dirs(g) == {("sys", "phy"): 1, ("phy", "sys"): 1} else VIOLATED, 0, "static analysis", info=str(dict(_mem_dirs(g)))))
    # the flags that ARE on the right side: txfull, rxempty, both event triggers only depend on sys registers
    def regdoms(sigs): return {g.reg[l].dom for l in g.leaves(set(sigs)) if l in g.reg and g.reg[l].kind not in ("extrst", "extclk")}
    u = d.uart
    okf = regdoms([u._txfull.status, u._rxempty.status, u.ev.tx.trigger, u.ev.rx.trigger, u._rxtx.w]) == {"sys"}
    out.append(res("ens.txfull,rxempty,event-triggers,rx-data-depend-only-on-sys-registers", "ensures", PROVED if okf else VIOLATED, 0, "static analysis"))
    out.append(summary(g, xs, t0, 7))
    return dict(results=out, functions=["litex.soc.cores.uart.UART.__init__", "litex.soc.cores.uart._get_uart_fifo", "litex.soc.cores.uart.RS232PHY.__init__ (renamed)"] + FN_STREAM)

def c_uart_fifo(sink_cd, source_cd, depth=16):
    from litex.soc.cores.uart import _get_uart_fifo
    t0 = time.time()
    d = mk(_get_uart_fifo, depth, sink_cd, source_cd)
    g = CDCGraph(d.get_fragment(), ep(d.source, source_cd, ep(d.sink, sink_cd)), top="asyncfifo")
    xs = g.analyse()
    out = to_results(xs) + renaming_results(g, d, sink_cd, source_cd)
    out.append(summary(g, xs, t0, 3))
    return dict(results=out, functions=["litex.soc.cores.uart._get_uart_fifo"] + FN_STREAM)

def c_uartbone(cd="uart", dynamic=False):
    from litex.soc.cores.uart import UARTBone, RS232PHY
    t0 = time.time()
    class Top(LiteXModule):
        def __init__(self):
            self.pads = Record([("tx", 1), ("rx", 1)])
            phy = RS232PHY(self.pads, 50e6, 115200, with_dynamic_baudrate=dynamic)
            self.ins = _bank(self, phy.get_csrs()) if dynamic else {}      # as the SoC does for <name>_phy
            self.tuning = phy._tuning_word if dynamic else None
            self.bone = UARTBone(phy, 50e6, cd)
    top = mk(Top); d = top.bone; pads = top.pads
    ins = dict(top.ins); ins.update({pads.rx: ASYNC, d.wishbone.ack: "sys", d.wishbone.dat_r: "sys", d.wishbone.err: "sys"})
    qs = {top.tuning.storage: "RS232PHY tuning word (CSRStorage of the sys-domain bank) used by the phase accumulators in cd; software must only change the baud rate while the link is idle "
                              "(a change during a character gives one arbitrary phase increment)"} if dynamic else {}
    g = CDCGraph(top.get_fragment(), ins, top="top", quasi_static=qs)
    xs = g.analyse()
    out = to_results(xs)
    rd = g.register_domains()
    out.append(res("ens.renaming.every-register-in-sys-or-cd", "ensures", PROVED if set(rd) == {"sys", cd} else VIOLATED, 0, "static analysis", info=f"{({k: len(v) for k, v in rd.items()})}"))
    # the whole PHY is in cd, the bridge FSM and its wishbone registers in sys
    phy_regs = {g.reg[l].dom for l in g.leaves({pads.tx}) if l in g.reg and g.reg[l].kind == "ff"} | {g.reg[pads.tx].dom if pads.tx in g.reg else None}
    wb_regs = {g.reg[l].dom for l in g.leaves({d.wishbone.adr, d.wishbone.dat_w, d.wishbone.stb, d.wishbone.we}) if l in g.reg and g.reg[l].kind == "ff"}
    out.append(res("ens.renaming.PHY-registers-in-cd,wishbone-side-registers-in-sys", "ensures", PROVED if phy_regs == {cd} and wb_regs == {"sys"} else VIOLATED, 0, "static analysis", info=f"phy {phy_regs} wishbone {wb_regs}"))
    out.append(res("ens.tx_cdc-crosses-sys->cd,rx_cdc-crosses-cd->sys", "ensures", PROVED if _mem_dirs(g) == {("sys", cd): 1, (cd, "sys"): 1} else VIOLATED, 0, "static analysis", info=str(dict(_mem_dirs(g)))))
    out.append(summary(g, xs, t0, 7))
    # the two crossings are connected to the bridge by complete stream handshakes: a word is popped from rx_cdc exactly when the bridge accepts it, a word
    # enters tx_cdc exactly when it is accepted there (a read side popped unconditionally loses the words offered while the bridge is busy)
    try:
        from vf.hw import HwCheck
        top2 = mk(Top); d2 = top2.bone
        h = HwCheck("UARTBone.handshakes", top2, [top2.pads.rx, d2.wishbone.ack, d2.wishbone.dat_r, d2.wishbone.err] + list(top2.ins), clock="sys")
        cc = h.ts.comb_constraints(); V = h.v
        bad = z3.Or(V(d2.rx_cdc.source.ready) != V(d2.sink.ready), V(d2.sink.valid) != V(d2.rx_cdc.source.valid), V(d2.tx_cdc.sink.valid) != V(d2.source.valid), V(d2.source.ready) != V(d2.tx_cdc.sink.ready))
        st, _, be, t = h._solve(cc + [bad])
        out.append(res("ens.crossings-connected-by-complete-handshakes", "ensures", PROVED if st == "unsat" else (UNKNOWN if st == "unknown" else NOINPUT), t, be))
        st2, _, be2, t2 = h._solve(cc + [V(d2.rx_cdc.source.valid) == 1, V(d2.rx_cdc.source.ready) == 0])
        out.append(res("cover.bridge-can-stall-the-rx-crossing", "cover", OK if st2 == "sat" else (UNKNOWN if st2 == "unknown" else VACUOUS), t2, be2))
    except (AttributeError, KeyError) as e:
        out.append(res("ens.crossings-connected-by-complete-handshakes", "ensures", UNKNOWN, 0, "", info=f"endpoints not found: {type(e).__name__}: {e}"))
    return dict(results=out, functions=["litex.soc.cores.uart.UARTBone.__init__", "litex.soc.cores.uart.Stream2Wishbone.__init__"] + FN_STREAM)

def c_elastic(width=8, depth=8):
    """litex.gen.genlib.cdc.ElasticBuffer: free-running pointers, the only crossings are the memory and the two reset synchronisers"""
    from litex.gen.genlib.cdc import ElasticBuffer
    t0 = time.time()
    d = mk(ElasticBuffer, width, depth, "i", "o")
    g = CDCGraph(d.get_fragment(), {d.din: "i"}, top=d)
    xs = g.analyse()
    out = to_results(xs)
    rd = g.register_domains()
    roots = {n: g.root(n) for n in rd}
    out.append(res("ens.write-side-clocked-by-idomain,read-side-by-odomain,both-reset-through-synchronisers-from-rst(i)|rst(o)", "ensures",
                   PROVED if roots == {"write": "i", "read": "o"} and len(g.arss) == 2 and all(set(g.leaves(g.rd(a.async_reset))) == {g.cds["i"].rst, g.cds["o"].rst} for a in g.arss) else VIOLATED, 0, "static analysis", info=str(roots)))
    out.append(summary(g, xs, t0, 3))
    return dict(results=out, functions=["litex.gen.genlib.cdc.ElasticBuffer.__init__"])

# ------------------------------------------------------------------------------------------------- sensitivity: broken variants must be flagged
def _flagged(xs, *needles):
    return [x for x in xs if x["status"] == VIOLATED and all(n in (x["pattern"] + " " + x["name"]) for n in needles)]

def _cov(name, hits, t0, xs):
    return res(name, "cover", OK if hits else VACUOUS, time.time() - t0, "static analysis of a deliberately broken variant", flagged=[h["name"] for h in hits][:6],
               info="" if hits else f"NOT detected; analysis said {[(x['name'], x['status']) for x in xs]}")

def s_stream_cdc():
    """broken variants of the real ClockDomainCrossing / AsyncFIFO fragment"""
    out = []
    def build(common_rst=False):
        d = mk(stream.ClockDomainCrossing, [("data", 8)], "a", "b", 8, False, common_rst)
        return d, d.get_fragment(), ep(d.source, "b", ep(d.sink, "a"))
    # 1. a pointer synchroniser replaced by a wire
    t0 = time.time(); d, f, ins = build()
    m = [sp for sp in f.specials if isinstance(sp, MultiReg) and sp.odomain == "b"][0]
    f.specials.remove(m); f.comb.append(m.o.eq(m.i))
    xs = CDCGraph(f, ins, top=d).analyse()
    out.append(_cov("cover.flagged[MultiReg of the write pointer replaced by a wire -> read-domain flops sample write-domain register]", _flagged(xs, "UNSYNCHRONISED", "xing[a->b]"), t0, xs))
    # 2. Gray encoding dropped: the binary pointer crosses
    t0 = time.time(); d, f, ins = build()
    m = [sp for sp in f.specials if isinstance(sp, MultiReg) and sp.odomain == "b"][0]
    g0 = CDCGraph(f, ins, top=d)
    qb = [r for r, gg in g0.reg.items() if gg.kind == "ff" and gg.dom == "a" and r is not m.i and r.nbits == len(m.i)][0]
    f.specials.remove(m); f.specials.add(MultiReg(qb, m.o, "b"))
    xs = CDCGraph(f, ins, top=d).analyse()
    out.append(_cov("cover.flagged[binary instead of Gray pointer through the MultiReg]", _flagged(xs, "not Gray", "q_binary"), t0, xs))
    # 3. combinational logic in front of the synchroniser (pointer masked by the write enable)
    t0 = time.time(); d, f, ins = build()
    m = [sp for sp in f.specials if isinstance(sp, MultiReg) and sp.odomain == "b"][0]
    f.specials.remove(m); f.specials.add(MultiReg(m.i & Replicate(d.sink.valid, len(m.i)), m.o, "b"))
    xs = CDCGraph(f, ins, top=d).analyse()
    out.append(_cov("cover.flagged[logic between the pointer register and the first synchroniser flop]", _flagged(xs, "combinational logic"), t0, xs))
    # 4. a read-domain register loaded with the write-side payload directly (multi-bit, no synchroniser)
    t0 = time.time(); d, f, ins = build()
    shadow = Signal(8)
    f.sync.setdefault("b", []).append(shadow.eq(d.sink.data))
    xs = CDCGraph(f, ins, top=d).analyse()
    out.append(_cov("cover.flagged[read-domain register fed by a write-domain 8-bit input]", _flagged(xs, "UNSYNCHRONISED", "shadow"), t0, xs))
    # 5. renaming of the read side forgotten
    t0 = time.time()
    fifo = mk(stream.AsyncFIFO, [("data", 8)], 8)
    dd = ClockDomainsRenamer({"write": "a"})(fifo)
    g = CDCGraph(dd.get_fragment(), ep(fifo.source, "b", ep(fifo.sink, "a")), top=fifo)
    rr = renaming_results(g, fifo, "a", "b")
    bad = [r for r in rr if r["status"] == VIOLATED]
    out.append(res("cover.flagged[read side left in domain 'read' (renamer maps only 'write')]", "cover", OK if bad else VACUOUS, time.time() - t0, "static analysis of a deliberately broken variant", flagged=[r["name"] for r in bad]))
    # 6. common reset: one reset synchroniser missing / fed by one reset only
    t0 = time.time(); d, f, ins = build(True)
    a = sorted([sp for sp in f.specials if isinstance(sp, AsyncResetSynchronizer)], key=lambda sp: sp.cd.name)[0]
    f.specials.remove(a)
    g = CDCGraph(f, ins, top=d); g.analyse()
    bad = [r for r in renaming_results(g, d, "a", "b", True) if r["status"] == VIOLATED and "common_rst" in r["name"]]
    out.append(res("cover.flagged[common_rst: reset synchroniser of one side removed]", "cover", OK if bad else VACUOUS, time.time() - t0, "static analysis of a deliberately broken variant", flagged=[r["name"] for r in bad]))
    t0 = time.time(); d, f, ins = build(True)
    a = sorted([sp for sp in f.specials if isinstance(sp, AsyncResetSynchronizer)], key=lambda sp: sp.cd.name)[0]
    f.specials.remove(a); f.specials.add(AsyncResetSynchronizer(a.cd, ResetSignal("a")))
    g = CDCGraph(f, ins, top=d); g.analyse()
    bad = [r for r in renaming_results(g, d, "a", "b", True) if r["status"] == VIOLATED and "common_rst" in r["name"]]
    out.append(res("cover.flagged[common_rst: one side reset from its own reset only]", "cover", OK if bad else VACUOUS, time.time() - t0, "static analysis of a deliberately broken variant", flagged=[r["name"] for r in bad]))
    # 7. the comb reset used directly (no synchroniser): the other domain's reset reaches the flops
    t0 = time.time(); d, f, ins = build(True)
    for a in [sp for sp in f.specials if isinstance(sp, AsyncResetSynchronizer)]:
        f.specials.remove(a); f.comb.append(a.cd.rst.eq(a.async_reset))
    xs = CDCGraph(f, ins, top=d).analyse()
    out.append(_cov("cover.flagged[common_rst: reset synchronisers replaced by wires -> foreign reset sampled by flops]", _flagged(xs, "UNSYNCHRONISED", "_rst"), t0, xs))
    return dict(results=out, functions=["contracts.C05_cdc_struct.CDCGraph (sensitivity of the analysis)"])

def s_bussync():
    """broken variants of the real BusSynchronizer / PulseSynchronizer fragments"""
    from litex.gen.genlib.cdc import BusSynchronizer
    out = []
    def build():
        d = mk(BusSynchronizer, 8, "i", "o"); return d, d.get_fragment(), {d.i: "i"}
    def parts(d, f):
        m = [sp for sp in f.specials if isinstance(sp, MultiReg) and len(sp.i) == 8][0]
        return m, m.i, m.o
    # 1. source buffer loaded every cycle (hold under handshake removed)
    t0 = time.time(); d, f, ins = build(); m, ib, ob = parts(d, f)
    f.sync["i"].append(ib.eq(d.i))
    xs = CDCGraph(f, ins, top=d).analyse()
    out.append(_cov("cover.flagged[ibuffer loaded unconditionally]", _flagged(xs, "not handshake-held", "ibuffer"), t0, xs))
    # 2. destination register loaded every cycle (capture not gated by the request)
    t0 = time.time(); d, f, ins = build(); m, ib, ob = parts(d, f)
    f.sync["o"].append(d.o.eq(ob))
    xs = CDCGraph(f, ins, top=d).analyse()
    out.append(_cov("cover.flagged[o loaded from obuffer every cycle]", _flagged(xs, "not handshake-held", "every cycle"), t0, xs))
    # 3. capture gated by an unsynchronised condition of the destination domain (not derived from the request pulse)
    t0 = time.time(); d, f, ins = build(); m, ib, ob = parts(d, f)
    free = Signal(); f.sync["o"].append(free.eq(~free)); f.sync["o"].append(If(free, d.o.eq(ob)))
    xs = CDCGraph(f, ins, top=d).analyse()
    out.append(_cov("cover.flagged[o loaded under a free-running enable]", _flagged(xs, "not handshake-held", "free"), t0, xs))
    # 4. data synchroniser removed: o loaded from ibuffer directly
    t0 = time.time(); d, f, ins = build(); m, ib, ob = parts(d, f)
    f.specials.remove(m); f.comb.append(ob.eq(ib))
    xs = CDCGraph(f, ins, top=d).analyse()
    out.append(_cov("cover.flagged[obuffer wired to ibuffer: 8-bit register-to-register crossing]", _flagged(xs, "UNSYNCHRONISED", "ibuffer"), t0, xs))
    # 5. request synchroniser fed through logic
    t0 = time.time(); d, f, ins = build()
    m1 = [sp for sp in f.specials if isinstance(sp, MultiReg) and len(sp.i) == 1 and sp.odomain == "o"][0]
    f.specials.remove(m1); f.specials.add(MultiReg(m1.i ^ d.i[0], m1.o, "o"))
    xs = CDCGraph(f, ins, top=d).analyse()
    out.append(_cov("cover.flagged[request toggle xor data bit in front of the synchroniser]", _flagged(xs, "combinational logic"), t0, xs))
    # 6. PulseSynchronizer with a single synchroniser flop
    t0 = time.time(); d = mk(PulseSynchronizer, "i", "o"); f = d.get_fragment()
    m1 = [sp for sp in f.specials if isinstance(sp, MultiReg)][0]
    f.specials.remove(m1); f.specials.add(MultiReg(m1.i, m1.o, "o", n=1))
    xs = CDCGraph(f, {d.i: "i"}, top=d).analyse()
    out.append(_cov("cover.flagged[PulseSynchronizer with a one-flop MultiReg]", _flagged(xs, "n=1"), t0, xs))
    # 7. PulseSynchronizer: the edge detector moved to the source domain (toggle_o_r clocked by i)
    t0 = time.time(); d = mk(PulseSynchronizer, "i", "o"); f = d.get_fragment()
    f.sync["i"] = f.sync["i"] + f.sync["o"]; f.sync["o"] = []
    xs = CDCGraph(f, {d.i: "i"}, top=d).analyse()
    out.append(_cov("cover.flagged[PulseSynchronizer edge-detector flop clocked by the source domain]", _flagged(xs, "UNSYNCHRONISED"), t0, xs))
    return dict(results=out, functions=["contracts.C05_cdc_struct.CDCGraph (sensitivity of the analysis)"])

def s_fixed_designs():
    """the two reported defects disappear when the design is repaired in the harness: the analysis does not flag the pattern as such"""
    out = []
    # Monitor-like count crossing done with the real BusSynchronizer instead of a plain MultiReg -> accepted
    from litex.gen.genlib.cdc import BusSynchronizer
    t0 = time.time()
    class Fixed(LiteXModule):
        def __init__(self):
            self.count = Signal(32); self.status = Signal(32)
            self.sync.mon += self.count.eq(self.count + 1)
            self.bs = BusSynchronizer(32, "mon", "sys")
            self.comb += [self.bs.i.eq(self.count), self.status.eq(self.bs.o)]
            self.ins = _bank_like(self)
    d = mk(Fixed)
    xs = CDCGraph(d.get_fragment(), d.ins, top="fixed").analyse()
    okx = [x for x in xs if x["status"] in (OK, PROVED) and "handshake" in x["pattern"]]
    out.append(res("cover.accepted[32-bit count through the real BusSynchronizer read by a sys register every cycle]", "cover", OK if okx and not [x for x in xs if x["status"] == VIOLATED] else VACUOUS, time.time() - t0,
                   "static analysis", info=str([(x["name"], x["status"]) for x in xs])))
    # UART-like status taken through a 1-bit MultiReg -> accepted? no: the flag is a comb function of two registers => must still be flagged (glitch); registered first => accepted
    t0 = time.time()
    class Flag(LiteXModule):
        def __init__(self, registered):
            self.a = Signal(4); self.b = Signal(4); self.flag = Signal(); self.rd = Signal()
            self.sync.phy += [self.a.eq(self.a + 1), self.b.eq(self.b + 3)]
            ne = Signal()
            if registered: self.sync.phy += ne.eq(self.a != self.b)
            else: self.comb += ne.eq(self.a != self.b)
            self.specials += MultiReg(ne, self.flag, "sys")
            self.sync.sys += self.rd.eq(self.flag)
    xs0 = CDCGraph(mk(Flag, False).get_fragment(), {}, top="flag").analyse()
    xs1 = CDCGraph(mk(Flag, True).get_fragment(), {}, top="flag").analyse()
    out.append(res("cover.flag-through-MultiReg: comb compare flagged, registered compare accepted", "cover",
                   OK if _flagged(xs0, "combinational logic") and not [x for x in xs1 if x["status"] == VIOLATED] and [x for x in xs1 if x["status"] == OK] else VACUOUS, time.time() - t0, "static analysis",
                   info=str([(x["name"], x["status"]) for x in xs0 + xs1])))
    return dict(results=out, functions=["contracts.C05_cdc_struct.CDCGraph (sensitivity of the analysis)"])

# ------------------------------------------------------------------------------------------------- two-clock model (witness for the Monitor finding)
def two_clock_bmc(frag, ext_cds, in_dom, depth, R, mk_bad, t_limit=300, async_set=None):
    """product model of a two-clock fragment (the one of contracts/C05_cdc.py, made generic): free scheduler inputs tick_<d> (simultaneous
    edges allowed, at most R consecutive edges of one clock without an edge of the other); every first synchroniser flop (a flop whose
    next-state function is exactly a register of the other clock) resolves each bit to the old or the new value of its source when both
    change in the same instant; inputs of a domain change only at its edges; flops listed in async_set {flop: signal} are preset to 1
    asynchronously while the signal is high (reset synchroniser model); BMC of mk_bad(at, v, k, solver, tick)."""
    async_set = async_set or {}
    if not isinstance(R, dict): R = collections.defaultdict(lambda r=R: r)
    from vf.zutil import get_vars
    t0 = time.time()
    f = copy_fragment(frag)
    for cd in ext_cds: f.clock_domains.append(cd)
    ts = TS(f, inputs=list(in_dom))
    v = ts.var
    doms = sorted(ts.next)
    assert len(doms) == 2, doms
    regdom = {s: cd for cd in doms for s in ts.next[cd]}
    first = {}
    for cd in doms:
        for s, e in ts.next[cd].items():
            es = z3.simplify(e)
            for src, scd in regdom.items():
                if scd != cd and es.eq(v[src]): first[s] = src
    comb = ts.comb_constraints()
    allv = {}
    for c in comb:
        for x in get_vars(c): allv[str(x)] = x
    for cd in doms:
        for s, e in ts.next[cd].items():
            allv[str(v[s])] = v[s]
            for x in get_vars(e): allv[str(x)] = x
    for s in in_dom: allv[str(v[s])] = v[s]
    allvars = [allv[k] for k in sorted(allv)]
    subc = {}
    def at(e, k):
        if k not in subc: subc[k] = [(x, z3.Const(f"{x}@{k}", x.sort())) for x in allvars]
        return z3.substitute(e, *subc[k])
    tick = lambda cd, k: z3.Bool(f"tick_{cd}@{k}")
    s = z3.Solver()
    for c in ts.init_constraints(): s.add(at(c, 0))
    for c in comb: s.add(at(c, 0))
    cnt = {cd: [z3.Int(f"since_{cd}@{k}") for k in range(depth + 1)] for cd in doms}
    for cd in doms: s.add(cnt[cd][0] == 0)
    found = None; model = None; reached = 0
    for k in range(depth):
        for c in comb: s.add(at(c, k + 1))
        s.add(z3.Or(*[tick(cd, k) for cd in doms]))
        for cd in doms:
            other = [d for d in doms if d != cd][0]
            s.add(cnt[cd][k + 1] == z3.If(tick(other, k), 0, cnt[cd][k] + z3.If(tick(cd, k), 1, 0)), cnt[cd][k + 1] <= R[cd])      # edges of cd since the last edge of the other clock
            for r, e in ts.next[cd].items():
                nxt = at(e, k)
                if r in first:
                    src = first[r]; scd = regdom[src]
                    src_new = z3.If(tick(scd, k), at(ts.next[scd][src], k), at(v[src], k))
                    mask = z3.BitVec(f"meta{r.duid}@{k}", r.nbits)
                    nxt = (at(v[src], k) & ~mask) | (src_new & mask)
                val = z3.If(tick(cd, k), nxt, at(v[r], k))
                if r in async_set:
                    a = async_set[r]
                    val = z3.If(z3.Or(at(v[a], k) != 0, at(v[a], k + 1) != 0), z3.BitVecVal(1, 1), val)
                s.add(at(v[r], k + 1) == val)
        for i, d in in_dom.items(): s.add(z3.Implies(z3.Not(tick(d, k)), at(v[i], k + 1) == at(v[i], k)))
        bad = mk_bad(at, v, k + 1, s, tick)          # may add permanent ghost definitions
        s.push(); s.add(bad); s.set("timeout", 120000)
        r = s.check()
        if r == z3.sat: found = k + 1; model = s.model(); s.pop(); break
        s.pop(); reached = k + 1
        if time.time() - t0 > t_limit: break
    return dict(found=found, model=model, at=at, v=v, doms=doms, first=first, secs=time.time() - t0, reached=reached, ts=ts)

def _never_held(src, out, X):
    """bad(k): `out` holds the non-zero word X that the source register `src` has held at no step <= k"""
    seen = {}
    def mk_bad(at, v, k, s, tick=None):
        for j in range(k + 1):
            if j not in seen:
                seen[j] = z3.Bool(f"seen@{j}")
                s.add(seen[j] == (z3.Or(seen[j - 1], at(v[src], j) == X) if j else at(v[src], 0) == X))
        o = at(v[out], k)
        return z3.And(o == z3.ZeroExt(o.size() - X.size(), X) if o.size() > X.size() else o == X, z3.Not(seen[k]), X != 0)
    return mk_bad

def c_monitor_witness(depth=16, R=2):
    """the Monitor finding in the two-clock bit-resolution model: a CSR read returns a word that _count_latched never held"""
    class Top(LiteXModule):
        def __init__(self):
            self.endpoint = stream.Endpoint([("data", 8)])
            self.mon = stream.Monitor(self.endpoint, count_width=2, clock_domain="mon", with_tokens=True)
            self.ins = _bank(self, self.mon.get_csrs())
    d = mk(Top); f = d.get_fragment()
    g = CDCGraph(f, {}, top="top")
    in_dom = dict(d.ins); in_dom[d.endpoint.valid] = "mon"; in_dom[d.endpoint.ready] = "mon"
    src = [m for m in g.multiregs if len(m.i) == 2][0].i
    X = z3.BitVec("X", 2)
    r = two_clock_bmc(f, g.ext_cds, in_dom, depth, R, _never_held(src, d.bus.dat_r, X))
    trace = None
    if r["found"] is not None:
        m, at, v = r["model"], r["at"], r["v"]
        ev = lambda e, j: str(m.eval(at(e, j), model_completion=True))
        trace = [dict(step=j, **({f"tick_{cd}": z3.is_true(m.eval(z3.Bool(f"tick_{cd}@{j}"), model_completion=True)) for cd in r["doms"]} if j < r["found"] else {}),
                      count_latched=ev(v[src], j), status=ev(v[d.mon._tokens.status], j), bus_adr=ev(v[d.bus.adr], j), bus_we=ev(v[d.bus.we], j), bus_dat_r=ev(v[d.bus.dat_r], j),
                      valid=ev(v[d.endpoint.valid], j), ready=ev(v[d.endpoint.ready], j)) for j in range(r["found"] + 1)]
    name = f"finding.two-clock-model: CSR read returns a word that count_latched never held (Monitor(count_width=2,with_tokens), depth<={depth}, drift R<={R})"
    return dict(results=[res(name, "finding-witness", VIOLATED if r["found"] is not None else PROVED, r["secs"], "z3(bmc)", what=MONITOR_WHAT, replay=_TOOLS + "/replay_cdc_monitor_torn.py", witness=trace,
                             info=f"torn word after {r['found']} scheduler steps" if r["found"] is not None else f"no torn word up to depth {r['reached']}", first_stage_flops=len(r["first"])),
                         res("cover.model-has-the-three-synchronisers", "cover", OK if len(r["first"]) == 3 else VACUOUS, 0, "static", info=str(len(r["first"])))],
                functions=["litex.soc.interconnect.stream.Monitor.__init__ (two-clock bounded model)"])

def c_monitor_repaired(depth=20, R=2, timeout=24):
    """control experiment: the same latched count sent through the real BusSynchronizer and read every sys cycle - no torn word in the same model (bounded)"""
    from litex.gen.genlib.cdc import BusSynchronizer
    from vf.core import BOUNDED_OK
    class Fixed(LiteXModule):
        def __init__(self):
            self.valid = Signal(); self.latch = Signal()
            self.count = Signal(2); self.latched = Signal(2, reset_less=True); self.status = Signal(2); self.rd = Signal(2)
            self.sync.mon += [If(self.valid & (self.count != 3), self.count.eq(self.count + 1)), If(self.latch, self.latched.eq(self.count))]
            self.bs = BusSynchronizer(2, "mon", "sys", timeout=timeout)
            self.comb += [self.bs.i.eq(self.latched), self.status.eq(self.bs.o)]
            self.sync.sys += self.rd.eq(self.status)
    d = mk(Fixed); f = d.get_fragment()
    g = CDCGraph(f, {}, top="fixed")
    xs = g.analyse()
    X = z3.BitVec("X", 2)
    r = two_clock_bmc(f, g.ext_cds, {d.valid: "mon", d.latch: "mon"}, depth, R, _never_held(d.latched, d.rd, X), t_limit=400)
    out = to_results(xs)
    out.append(res(f"ens.no-torn-word[count through the real BusSynchronizer(2,timeout={timeout}) read every sys cycle; bounded depth={r['reached']}, drift R<={R}]", "bounded",
                   BOUNDED_OK if r["found"] is None else VIOLATED, r["secs"], "z3(bmc)", first_stage_flops=len(r["first"])))
    out.append(res("cover.structural-analysis-accepts-the-repaired-design", "cover", OK if xs and all(x["status"] in (OK, PROVED) for x in xs) else VACUOUS, 0, "static analysis"))
    return dict(results=out, functions=["litex.gen.genlib.cdc.BusSynchronizer.__init__ (bounded, as the repair of the Monitor crossing)"])

RESET_WHAT = ("stream.ClockDomainCrossing(with_common_rst=True): source.valid is a combinational function of the pointers and is not gated by the internal reset. While the read side is held "
              "in its internal reset (common reset raised by EITHER domain, plus the two release edges of the reset synchroniser) its pointer is stuck at 0 but is still compared with the "
              "write pointer as seen through the synchroniser, which stays stale until the next cd_from edge has cleared it and the cleared value has passed two cd_to flops. A consumer of "
              "cd_to whose own ResetSignal(cd_to) is low (only cd_from was reset, or a short cd_to pulse is already over) therefore sees valid=1 and takes the same old word on every cycle: "
              "more words are delivered than were ever written. The synchroniser flops are reset_less and keep the stale pointer for two more cd_to edges, so even a pulse that resets both sides "
              "leaves the pointers inconsistent and the FIFO then drains 2*depth phantom entries. Reproduced on the real simulator (its own reset-synchroniser lowering): "
              "tools/replay_cdc_common_rst_dup.py - one word written, 9 to 11 words delivered after a one-period pulse of ResetSignal(cd_from) or ResetSignal(cd_to)")

def c_common_rst_pulse(depth, mode, R=None):
    """two-clock model of the real ClockDomainCrossing(with_common_rst=True) with each AsyncResetSynchronizer replaced by its usual implementation
    (two flops of the destination clock, asynchronously preset while the common reset is high, so the release takes two edges); ghost counters:
    W = words accepted at cd_from edges since power-on (also those accepted while the write side is held in reset), Rd = words taken at cd_to edges
    since power-on; neither is cleared by a reset; bad: Rd > W, i.e. more words delivered than were ever accepted (an old word delivered again)."""
    from vf.core import BOUNDED_OK
    d = mk(stream.ClockDomainCrossing, [("data", 1)], "a", "b", 4, False, True)
    f = d.get_fragment()
    g = CDCGraph(f, {}, top=d)
    async_set = {}
    frm = [a for a in g.arss if a.cd.name.startswith("from")][0]; to = [a for a in g.arss if a.cd.name.startswith("to")][0]
    arst = frm.async_reset
    for a in g.arss:
        f.specials.remove(a)
        ff1 = Signal(reset=1, reset_less=True, name_override=f"{a.cd.name}_rst_meta")
        a.cd.rst.reset_less = True; a.cd.rst.reset = Constant(1, 1)
        f.sync.setdefault(a.cd.name, [])
        f.sync[a.cd.name] = f.sync[a.cd.name] + [ff1.eq(0), a.cd.rst.eq(ff1)]
        async_set[ff1] = a.async_reset; async_set[a.cd.rst] = a.async_reset
    F, T = frm.cd.name, to.cd.name
    rst_a, rst_b = g.cds["a"].rst, g.cds["b"].rst
    in_dom = {d.sink.valid: F, d.sink.data: F, d.source.ready: T, rst_a: F, rst_b: T}
    W, Rd = {}, {}
    def mk_bad(at, v, k, s, tick):
        for j in range(k + 1):
            if j in W: continue
            W[j] = z3.Int(f"W@{j}"); Rd[j] = z3.Int(f"Rd@{j}")
            if j == 0: s.add(W[0] == 0, Rd[0] == 0); continue
            wf = z3.And(tick(F, j - 1), at(v[d.sink.valid], j - 1) != 0, at(v[d.sink.ready], j - 1) != 0)
            rf = z3.And(tick(T, j - 1), at(v[d.source.valid], j - 1) != 0, at(v[d.source.ready], j - 1) != 0, at(v[rst_b], j - 1) == 0)     # the consumer only counts while its own reset is low
            s.add(W[j] == W[j - 1] + z3.If(wf, 1, 0), Rd[j] == Rd[j - 1] + z3.If(rf, 1, 0))        # never cleared: Rd > W means more words delivered than were EVER accepted
        if mode == "noreset":
            for j in ((0, k) if k == 1 else (k,)): s.add(at(v[rst_a], j) == 0, at(v[rst_b], j) == 0)
        return Rd[k] > W[k]
    R = R or 3
    r = two_clock_bmc(f, g.ext_cds, in_dom, depth, R, mk_bad, async_set=async_set, t_limit=400)
    fn = ["litex.soc.interconnect.stream.ClockDomainCrossing.__init__ (with_common_rst; two-clock bounded model)", "migen.genlib.fifo.AsyncFIFO (flattened into the model)"]
    if mode == "noreset":
        return dict(results=[res(f"ens.never-more-words-delivered-than-written[ClockDomainCrossing(depth=4,common_rst), no reset pulse after power-on; bounded depth={r['reached']}, drift R<={R}]", "bounded",
                                 BOUNDED_OK if r["found"] is None else VIOLATED, r["secs"], "z3(bmc)", first_stage_flops=len(r["first"])),
                             res("cover.model-has-the-two-pointer-synchronisers", "cover", OK if len(r["first"]) == 2 else VACUOUS, 0, "static", info=str(len(r["first"])))], functions=fn)
    trace = None
    if r["found"] is not None:
        m, at, v = r["model"], r["at"], r["v"]
        ev = lambda e, j: str(m.eval(at(e, j), model_completion=True))
        ptr = {nm(x): x for cd in r["doms"] for x in r["ts"].next[cd] if "graycounter.q'" in nm(x)}
        trace = [dict(step=j, **({f"tick_{dn(cd)}": z3.is_true(m.eval(z3.Bool(f"tick_{cd}@{j}"), model_completion=True)) for cd in r["doms"]} if j < r["found"] else {}),
                      rst_a=ev(v[rst_a], j), rst_b=ev(v[rst_b], j), from_rst=ev(v[frm.cd.rst], j), to_rst=ev(v[to.cd.rst], j), sink_valid=ev(v[d.sink.valid], j), sink_ready=ev(v[d.sink.ready], j),
                      source_valid=ev(v[d.source.valid], j), source_ready=ev(v[d.source.ready], j), W=str(m.eval(W[j])), Rd=str(m.eval(Rd[j])), **{n: ev(v[x], j) for n, x in sorted(ptr.items())}) for j in range(r["found"] + 1)]
    name = f"finding.two-clock-model: around a reset pulse the common-reset crossing delivers more words than were ever written (depth<={depth}, drift R<={R})"
    return dict(results=[res(name, "finding-witness", VIOLATED if r["found"] is not None else PROVED, r["secs"], "z3(bmc)", what=RESET_WHAT, replay=_TOOLS + "/replay_cdc_common_rst_dup.py", witness=trace,
                             info=f"Rd > W after {r['found']} scheduler steps" if r["found"] is not None else f"not reachable up to depth {r['reached']}"),
                         res("cover.model-has-the-two-pointer-synchronisers", "cover", OK if len(r["first"]) == 2 else VACUOUS, 0, "static", info=str(len(r["first"])))], functions=fn)

def _bank_like(mod):
    """a sys-domain register that samples mod.status every cycle (what a CSR read does)"""
    mod.rd = Signal(len(mod.status))
    mod.sync.sys += mod.rd.eq(mod.status)
    return {}

def cases(tier):
    cs = [VCase("struct.ClockDomainCrossing(depth=8)", c_stream_cdc, 8, False, False),
          VCase("struct.ClockDomainCrossing(depth=4,buffered)", c_stream_cdc, 4, True, False),
          VCase("struct.ClockDomainCrossing(depth=8,payload+param)", c_stream_cdc, 8, False, False, 8, True),
          VCase("struct.ClockDomainCrossing(depth=8,common_rst)", c_stream_cdc, 8, False, True),
          VCase("struct.ClockDomainCrossing(depth=16,buffered,common_rst)", c_stream_cdc, 16, True, True),
          VCase("struct.ClockDomainCrossing(depth=None->4,wide)", c_stream_cdc, None, False, False, 64),
          VCase("struct.AsyncFIFO(depth=4,renamed)", c_asyncfifo, 4, False),
          VCase("struct.AsyncFIFO(depth=32,buffered,renamed)", c_asyncfifo, 32, True),
          VCase("struct.AsyncFIFO(not renamed)", c_asyncfifo_unrenamed),
          VCase("struct.AXILiteClockDomainCrossing", c_axil_cdc),
          VCase("struct.uart._get_uart_fifo(sys->phy)", c_uart_fifo, "sys", "phy"),
          VCase("struct.uart._get_uart_fifo(phy->sys,depth=4)", c_uart_fifo, "phy", "sys", 4),
          VCase("struct.UART(phy_cd=phy)", c_uart_phy_cd),
          VCase("struct.UARTBone(cd=uart)", c_uartbone, "uart"),
          VCase("struct.UARTBone(cd=uart,dynamic_baudrate)", c_uartbone, "uart", True),
          VCase("struct.Monitor(clock_domain=mon)", c_monitor),
          VCase("struct.Monitor.two-clock-witness", c_monitor_witness), VCase("struct.Monitor.repaired-with-BusSynchronizer", c_monitor_repaired, 16 if tier == "quick" else 24),
          VCase("struct.ClockDomainCrossing(common_rst).reset-pulse.two-clock-witness", c_common_rst_pulse, 14, "pulse"),
          VCase("struct.ClockDomainCrossing(common_rst).no-reset.two-clock-bounded", c_common_rst_pulse, 11 if tier == "quick" else 14, "noreset", timeout=900),
          VCase("struct.BusSynchronizer(1)", c_bussync, 1), VCase("struct.BusSynchronizer(2)", c_bussync, 2), VCase("struct.BusSynchronizer(8)", c_bussync, 8),
          VCase("struct.BusSynchronizer(32,timeout=16)", c_bussync, 32, 16),
          VCase("struct.PulseSynchronizer", c_pulsesync),
          VCase("struct.ElasticBuffer(8x8)", c_elastic),
          VCase("struct.sensitivity.ClockDomainCrossing", s_stream_cdc), VCase("struct.sensitivity.BusSynchronizer+PulseSynchronizer", s_bussync),
          VCase("struct.sensitivity.repaired-designs", s_fixed_designs)]
    if tier == "thorough":
        for depth in (4, 8, 64, 256):
            for buffered in (False, True):
                for rst in (False, True):
                    cs.append(VCase(f"struct.ClockDomainCrossing(depth={depth},buffered={buffered},common_rst={rst},w=32)", c_stream_cdc, depth, buffered, rst, 32))
        cs += [VCase(f"struct.BusSynchronizer({w})", c_bussync, w) for w in (3, 16, 64, 128)]
        cs += [VCase("struct.Monitor(clock_domain=mon,count_width=8)", c_monitor, 8), VCase("struct.UART(phy_cd=phy,depth=64)", c_uart_phy_cd, 64),
               VCase("struct.ElasticBuffer(32x16)", c_elastic, 32, 16)]
    return cs

FUNCTIONS = ["contracts.C05_cdc_struct.CDCGraph: static CDC analysis of the fragment built by the real constructors (get_fragment after all ClockDomainsRenamer)"]

ASSUMPTIONS = [
    "structural CDC contract: 'synchronous' means clocked by the same root clock; a domain that the fragment does not define (a, b, sys, phy...) is an independent clock whose own reset input is synchronous to it; primary inputs belong to the domain the harness declares (stream sink -> cd_from, stream source.ready -> cd_to, CSR/wishbone bus -> sys, pads.rx -> asynchronous); undriven undeclared signals are constants (listed per case in the cover result)",
    "ASSUMED about MultiReg (migen, not in /repo): n>=2 flops in the destination clock resolve metastability (no timing/MTBF statement can be made at this level); 1-bit crossings only need a glitch-free source, which is checked (source = one register output)",
    "ASSUMED about Gray crossings: what is PROVED with z3 on the real next-state function is only 'at most one bit of the crossed register changes per source clock edge while the source domain's reset is low'. That the receiving comparison logic tolerates a pointer that is late by some edges (migen AsyncFIFO readable/writable) is the assumption already listed by contracts/C05_cdc.py. A reset of the source domain alone changes several bits at once: outside the contract unless with_common_rst, where both sides are reset together (reset pulse shorter than the slower clock's period: not analysed)",
    "ASSUMED about dual-clock memories: the read port never addresses a location in the cycle it is written; this is the FIFO pointer discipline (migen AsyncFIFO; ElasticBuffer relies on its half-depth start offset and equal frequencies) and is not derivable from the structure",
    "ASSUMED about the handshake pattern: the structure is checked (source load enable and destination capture enable derive only from synchronised single-bit signals of the opposite domain), not the protocol timing (request arriving after the data is stable, time-out longer than a round trip): for BusSynchronizer that part is the bounded two-clock model of contracts/C05_cdc.py",
    "ASSUMED about AsyncResetSynchronizer: asynchronous assertion, release synchronised to the destination clock; any combinational function of resets may drive it (glitches only lengthen a reset)",
    "quasi-static waiver (rule Q) used once: RS232PHY(with_dynamic_baudrate) tuning word (sys CSRStorage) read by the phase accumulators of a PHY renamed into another domain (UARTBone cd != sys): software changes it only while the link is idle",
    "two-clock witness/control for stream.Monitor: BOUNDED model (depth and drift ratio in the obligation name), same metastability abstraction as the BusSynchronizer model of contracts/C05_cdc.py",
    "two-clock model of the common-reset crossing: AsyncResetSynchronizer = two flops of the destination clock preset asynchronously while the common reset is high (release after two edges; the platform implementations in litex/build do this); ResetSignal(cd_from)/ResetSignal(cd_to) change only at edges of their own clock; the consumer of domain cd_to is live whenever ResetSignal(cd_to) is low; words accepted while the write side is held in reset are counted as written although they are lost (only makes the finding harder to reach); BOUNDED",
    "PulseSynchronizer: pulses closer together than the destination period may merge or cancel (migen BlindTransfer docstring): not a structural property, not checked",
    "NOT decidable here: metastability resolution time, skew between the bits of a Gray pointer on the way to the first flops, clock frequency ratios, liveness ('after the input has been stable long enough the output reflects it')"]
