"""C19 (extension X2): SPI master receive path / CSR front end / corner configurations, I2C master data path and timing.
SPIMaster   - MISO capture (ghost shift register fed from pads.miso at the rising SCK edges, MSB first), result register latched only at the end
              of a transfer, loopback (received == bits on the MOSI wire == the relevant bits of the word written), irq = last cycle of a transfer,
              pads without cs_n; the whole transfer contract again behind a real CSRBank (with_csr=True + add_clk_divider: register fields drive
              start/length/cs/cs_mode/loopback/clk_divider, status.done/mode and miso read back), termination by a ranking function;
              corner configurations (clk_divider 0/1, length 0, length > data_width): bounded-duration clause = finding candidates (hangs).
I2CMaster   - (litex/soc/cores/i2c.py) data byte on SDA MSB first at the rising SCL edges, eight bits then the acknowledge slot (SDA released, ack
              sampled while SCL is high), read byte assembled MSB first from the samples taken while SCL is high, acknowledge bit driven from the
              written ack field, command priority, SCL phase length = divider + 1 system clock cycles, bus-side registers (xfer / config read back,
              one-cycle strobes, bus ack) and the idle event behind a real CSRBank.
I2CClockGen - one clk2x tick every load + 1 enabled cycles."""
import z3
from vf.elab import L, locals_of, mk
from vf.hw import *
from migen import *
from litex.gen import LiteXModule
from litex.soc.interconnect import csr_bus
from vf.core import Case

# ================================================================================================== SPIMaster
def _low(x, n, WD):
    """the low n bits of x (n a bit-vector term, value <= x.size()), in width WD > x.size()"""
    mask = (z3.BitVecVal(1, WD) << zx(n, WD)) - 1
    return zx(x, WD) & mask

def _wd(dw): return max(dw + 2, 18)

def _spi_contract(h, d, dw, mode, DIV, LEN, LB, scope="legal", global_div=True):
    """the transfer contract of SPIMaster over abstract configuration terms (rigid constants or CSR storage registers):
    DIV 16 bit divider, LEN 8 bit length, LB 1 bit loopback - all stable while a transfer is in progress (caller's assumptions)"""
    V = h.v; pads = d.pads
    st, enc = d.fsm.state, d.fsm.encoding
    idle, sstart, run, stop = [eqc(V(st), enc[n]) for n in ("IDLE", "START", "RUN", "STOP")]
    n_idle = eqc(h.n(st), enc["IDLE"])
    busy = z3.Not(idle)
    one, zero = K(1, 1), K(0, 1)
    count = L(d, "count"); cdiv = L(d, "clk_divider"); md = L(d, "mosi_data"); ms = L(d, "mosi_sel"); misod = L(d, "miso_data")
    have = all(x is not None and x in h.ts.var for x in (count, cdiv, md, ms, misod))
    rise = z3.And(z3.Not(b(V(pads.clk))), b(h.n(pads.clk)))                   # rising SCK edge at the pad = the capture instant (CPOL = 0, CPHA = 0)
    start_now = z3.And(idle, b(V(d.start)))
    # ---- ghosts (specification state)
    np_ = h.ghost("npulses", 9); h.ghost_next(np_, z3.If(idle, K(0, 9), z3.If(rise, np_ + 1, np_)))
    gd = h.ghost("gdata", dw); h.ghost_next(gd, z3.If(start_now, V(d.mosi), gd))                   # the word offered when the transfer was started
    grx = h.ghost("grx", dw); gtx = h.ghost("gtx", dw)                                                # what an SPI monitor on the wires shifts in at the rising edges, MSB first
    def shin(g, bit): return z3.Concat(z3.Extract(dw - 2, 0, g), bit) if dw > 1 else bit
    h.ghost_next(grx, z3.If(idle, K(0, dw), z3.If(rise, shin(grx, V(pads.miso)), grx)))
    h.ghost_next(gtx, z3.If(idle, K(0, dw), z3.If(rise, shin(gtx, V(pads.mosi)), gtx)))
    WD = _wd(dw); W = 32
    ln9 = zx(LEN, 9)
    top = (ln9 - 1) if mode == "aligned" else K(dw - 1, 9)
    def bit_at(word, idx9):
        r = z3.Extract(dw - 1, dw - 1, word)
        for j in reversed(range(dw - 1)): r = z3.If(idx9 == K(j, 9), z3.Extract(j, j, word), r)
        return r
    def sent(n9):       # the n9 bits of the offered word that have been sent after n9 clock pulses, right aligned
        return z3.LShR(zx(gd, WD), zx(top + 1 - n9, WD))
    irq = b(V(d.irq))
    if scope == "legal" and have:
        div = zx(DIV, W); cnt = zx(V(cdiv), W); ln = zx(LEN, W); c_ = zx(V(count), W); half = z3.LShR(div, 1)
        # ---- helper invariants (from the code)
        if global_div: h.hint("cnt<div", z3.ULT(cnt, div))
        h.hint("cnt<div.xfer", z3.Implies(z3.Or(run, stop), z3.ULT(cnt, div)))
        h.hint("clk", b(V(pads.clk)) == z3.And(run, z3.UGE(cnt, half)))
        h.hint("np", z3.Implies(run, np_ == zx(V(count), 9) + zx(V(pads.clk), 9)))
        h.hint("np0", z3.Implies(sstart, np_ == K(0, 9)))
        h.hint("npstop", z3.Implies(stop, np_ == ln9))
        h.hint("count<len", z3.Implies(run, z3.ULT(c_, ln)))
        h.hint("st", ult(V(st), 4))
        h.hint("stop-phase", z3.Implies(stop, z3.ULT(cnt, half)))
        h.hint("md", z3.Implies(busy, V(md) == gd))
        h.hint("ms.start", z3.Implies(sstart, zx(V(ms), 9) == top))
        MW = V(ms).size()
        h.hint("ms.run", z3.Implies(run, z3.Extract(MW - 1, 0, zx(V(ms), 9) + zx(V(count), 9) + 1) == z3.Extract(MW - 1, 0, top)))
        h.hint("mosi.run", z3.Implies(run, V(pads.mosi) == bit_at(gd, top - zx(V(count), 9))))
        h.hint("rx", z3.Implies(z3.Or(run, stop), _low(V(misod) ^ z3.If(b(LB), gtx, grx), np_, WD) == K(0, WD)))
        h.hint("tx", z3.Implies(z3.Or(run, stop), _low(gtx, np_, WD) == _low(z3.Extract(dw - 1, 0, sent(np_)), np_, WD)))
        h.hint("np<=len", z3.Implies(busy, z3.ULE(np_, ln9)))
        # ---- termination: a lexicographic ranking function (SCK periods still to go, cycles to the next divider wrap) decreases in every busy cycle
        def periods(stx, cx):
            return z3.If(eqc(stx, enc["START"]), ln + 2, z3.If(eqc(stx, enc["RUN"]), ln - cx + 1, z3.If(eqc(stx, enc["STOP"]), K(1, W), K(0, W))))
        p0 = periods(V(st), c_); p1 = periods(h.n(st), zx(h.n(count), W))
        q0 = zx(DIV - 1 - V(cdiv), W); q1 = zx(h.primed(DIV) - 1 - h.n(cdiv), W)          # modulo 2^16: in START the free-running divider may have to wrap first
        h.ensure("ens.rank", z3.Implies(busy, z3.Or(n_idle, z3.ULT(p1, p0), z3.And(p1 == p0, z3.ULT(q1, q0)))))
        xfer = z3.Or(run, stop, z3.And(sstart, cnt == div - 1))
    elif scope == "legal":
        h.use_auto = True; xfer = None
    if scope == "legal":
        # ---- pulse count, framing, MOSI (as in C19_periph.c_spi; re-stated here because the geometries / pads / front end differ)
        h.ensure("ens.pulse-only-in-run", z3.Implies(rise, run))
        h.ensure("ens.pulses", z3.Implies(z3.And(run, eqc(h.n(st), enc["STOP"])), np_ == ln9))
        h.ensure("ens.clk-idle-low", z3.Implies(z3.Not(run), z3.Not(b(V(pads.clk)))))
        h.ensure("ens.mosi", z3.Implies(rise, V(pads.mosi) == bit_at(gd, top - np_)))               # k-th rising edge (k = 0 first): bit top-k of the offered word
        if xfer is not None:
            ncs_ = V(d.cs).size()
            h.ensure("ens.cs", h.n(pads.cs_n) == ~(V(d.cs) & z3.If(z3.Or(xfer, b(V(d.cs_mode))), K((1 << ncs_) - 1, ncs_), K(0, ncs_))))
        # ---- MISO capture
        h.ensure("ens.capture.count", z3.Implies(irq, np_ == ln9))                                   # exactly `length` capture instants per transfer
        h.ensure("ens.capture.word", z3.Implies(z3.And(irq, z3.Not(b(LB))), _low(h.n(d.miso), LEN, WD) == _low(grx, LEN, WD)))     # received word = the bits the slave drove at the rising edges, MSB first
        h.ensure("ens.capture.loopback", z3.Implies(z3.And(irq, b(LB)), _low(h.n(d.miso), LEN, WD) == _low(gtx, LEN, WD)))       # loopback: received = the bits on the MOSI wire
        h.ensure("ens.capture.loopback-word", z3.Implies(z3.And(irq, b(LB)), _low(h.n(d.miso), LEN, WD) == _low(z3.Extract(dw - 1, 0, sent(ln9)), LEN, WD)))   # = the transmitted bits of the offered word
        h.ensure("ens.capture.latch-only-at-end", z3.Implies(z3.Not(irq), h.n(d.miso) == V(d.miso)))   # the result register is stable between transfers and during a transfer
    h.ensure("ens.irq", irq == z3.And(busy, n_idle))                                                # one pulse, in the last cycle of the transfer
    h.ensure("ens.done", b(V(d.done)) == z3.And(idle, z3.Not(b(V(d.start)))))
    h.ensure("ens.start", z3.Implies(idle, eqc(h.n(st), enc["START"]) == b(V(d.start))))         # a transfer begins exactly on start while idle
    return dict(idle=idle, sstart=sstart, run=run, stop=stop, busy=busy, np=np_, grx=grx, gtx=gtx, gd=gd, irq=irq, rise=rise, misod=misod if have else None, n_idle=n_idle)

class _PadsNoCs:
    def __init__(self): self.clk = Signal(); self.mosi = Signal(); self.miso = Signal()

def _spi_pads(kind):
    if kind == "nocs": return _PadsNoCs()
    if kind == "cs4": return Record([("clk", 1), ("cs_n", 4), ("mosi", 1), ("miso", 1)])
    return None

def c_spi_rx(dw=8, mode="raw", pads_kind="std"):
    """SPIMaster without CSRs: divider (>= 2), length (1..data_width) and loopback are rigid symbolic configuration constants"""
    from litex.soc.cores.spi import SPIMaster
    d = mk(SPIMaster, _spi_pads(pads_kind), dw, 100e6, 25e6, with_csr=False, mode=mode); pads = d.pads
    h = HwCheck(f"SPIMaster.rx(dw={dw},{mode},{pads_kind})", d, [d.start, d.length, d.mosi, d.cs, d.cs_mode, d.loopback, d.clk_divider, pads.miso])
    V = h.v
    pdiv = h.const("div", 16); plen = h.const("len", 8); plb = h.const("lb", 1)
    h.assume(z3.And(V(d.clk_divider) == pdiv, uge(pdiv, 2)), "the clock divider is configuration: constant and >= 2")
    h.assume(z3.And(V(d.length) == plen, uge(plen, 1), ule(plen, dw)), "transfer length constant during a transfer, 1..data_width (modelled as a rigid constant)")
    h.assume(V(d.loopback) == plb, "loopback is configuration: constant (rigid symbolic bit)")
    x = _spi_contract(h, d, dw, mode, pdiv, plen, plb)
    h.cover("cover.capture", z3.And(x["irq"], plb == K(0, 1), plen == K(min(dw, 8), 8), pdiv == K(2, 16), _low(x["grx"], plen, _wd(dw)) == K(0xA5 & ((1 << min(dw, 8)) - 1), _wd(dw))), depth=2 * min(dw, 8) + 8)
    h.cover("cover.loopback", z3.And(x["irq"], plb == K(1, 1), plen == K(3, 8), pdiv == K(2, 16), _low(x["gtx"], plen, _wd(dw)) == K(5, _wd(dw))), depth=16)
    h.bmc_depth = 2 * min(dw, 8) + 8
    h.functions = ["litex.soc.cores.spi.spi_master.SPIMaster.__init__"]
    return h

def c_spi_bound(dw=8, split=True):
    """bounded duration (the clause that the corner configurations below violate): with divider >= 2 and 1 <= length <= data_width a transfer
    is busy for at most (length + 2) SCK periods = (length + 2) * divider system clock cycles"""
    from litex.soc.cores.spi import SPIMaster
    d = mk(SPIMaster, None, dw, 100e6, 25e6, with_csr=False, mode="raw"); pads = d.pads
    h = HwCheck(f"SPIMaster.bound(dw={dw})", d, [d.start, d.length, d.mosi, d.cs, d.cs_mode, d.loopback, d.clk_divider, pads.miso])
    V = h.v
    pdiv = h.const("div", 16); plen = h.const("len", 8)
    h.assume(z3.And(V(d.clk_divider) == pdiv, uge(pdiv, 2)), "the clock divider is configuration: constant and >= 2")
    h.assume(z3.And(V(d.length) == plen, uge(plen, 1), ule(plen, dw)), "transfer length constant during a transfer, 1..data_width (modelled as a rigid constant)")
    st, enc = d.fsm.state, d.fsm.encoding
    idle, sstart, run, stop = [eqc(V(st), enc[n]) for n in ("IDLE", "START", "RUN", "STOP")]
    busy = z3.Not(idle)
    AW = 16 + (dw + 2).bit_length() + 1
    age = h.ghost("age", AW); h.ghost_next(age, z3.If(idle, K(0, AW), z3.If(age == K((1 << AW) - 1, AW), age, age + 1)))      # busy cycles so far
    cdiv = L(d, "clk_divider"); count = L(d, "count")
    if cdiv is not None and count is not None and cdiv in h.ts.var and count in h.ts.var:
        dv = zx(pdiv, AW); cn = zx(V(cdiv), AW)
        h.hint("st", ult(V(st), 4))
        h.hint("cnt<div", z3.ULT(V(cdiv), pdiv))
        h.hint("count<len", z3.Implies(run, z3.ULT(zx(V(count), 8), plen)))
        h.hint("stop-phase", z3.Implies(stop, z3.ULT(V(cdiv), z3.LShR(pdiv, 1))))
        h.hint("age.start", z3.Implies(sstart, z3.ULE(age, cn)))
        for k in range(dw):        # split by value: products with a constant only
            h.hint(f"age.run{k}", z3.Implies(z3.And(run, eqc(V(count), k)), z3.ULE(age, dv * K(k + 1, AW) + cn)))
            h.hint(f"age.stop{k + 1}", z3.Implies(z3.And(stop, plen == K(k + 1, 8)), z3.ULE(age, dv * K(k + 2, AW) + cn)))
    else: h.use_auto = True
    h.ensure("ens.finish-bound", z3.And(*[z3.Implies(z3.And(busy, plen == K(n, 8)), z3.ULE(age, K(n + 2, AW) * zx(pdiv, AW))) for n in range(1, dw + 1)]))
    h.cover("cover.long", z3.And(stop, age == K(14, AW), pdiv == K(4, 16)), depth=18)
    h.bmc_depth = 20
    h.functions = ["litex.soc.cores.spi.spi_master.SPIMaster.__init__"]
    return h

def c_spi_corner(dw=8, what="div<2"):
    """corner configurations outside 'divider >= 2, 1 <= length <= data_width': does every started transfer finish?
    The bounded-duration clause (a transfer takes at most (length + 2) SCK periods) is a finding candidate: see tools/replay_spi_master_hang.py"""
    from litex.soc.cores.spi import SPIMaster
    d = mk(SPIMaster, None, dw, 100e6, 25e6, with_csr=False, mode="raw"); pads = d.pads
    h = HwCheck(f"SPIMaster.corner(dw={dw},{what})", d, [d.start, d.length, d.mosi, d.cs, d.cs_mode, d.loopback, d.clk_divider, pads.miso])
    V = h.v
    pdiv = h.const("div", 16); plen = h.const("len", 8); plb = h.const("lb", 1)
    legal_len = z3.And(uge(plen, 1), ule(plen, dw))
    if what == "div<2":
        h.assume(z3.And(V(d.clk_divider) == pdiv, ult(pdiv, 2)), "corner case: the clock divider is constant and 0 or 1")
        h.assume(z3.And(V(d.length) == plen, legal_len), "transfer length constant, 1..data_width")
    elif what == "len=0":
        h.assume(z3.And(V(d.clk_divider) == pdiv, uge(pdiv, 2)), "the clock divider is constant and >= 2")
        h.assume(z3.And(V(d.length) == plen, plen == K(0, 8)), "corner case: transfer length 0")
    else:
        h.assume(z3.And(V(d.clk_divider) == pdiv, uge(pdiv, 2)), "the clock divider is constant and >= 2")
        h.assume(z3.And(V(d.length) == plen, ugt(plen, dw)), "corner case: transfer length > data_width")
    h.assume(V(d.loopback) == plb, "loopback is configuration: constant (rigid symbolic bit)")
    x = _spi_contract(h, d, dw, "raw", pdiv, plen, plb, scope="corner")
    AW = 26
    age = h.ghost("age", AW); h.ghost_next(age, z3.If(x["idle"], K(0, AW), z3.If(age == K((1 << AW) - 1, AW), age, age + 1)))      # busy cycles so far
    periods = zx(plen, AW) + 2
    bound = periods * z3.If(ult(pdiv, 1), K(1, AW), zx(pdiv, AW))                                   # (length + 2) SCK periods of max(divider, 1) cycles
    clause = z3.Implies(x["busy"], z3.ULE(age, bound))
    name = {"div<2": "finding.spi-master-hang-divider-0-1", "len=0": "finding.spi-master-hang-length-0"}.get(what, "finding.spi-master-hang-length-over-data-width")
    text = {"div<2": "SPIMaster with clk_divider 0 or 1 (a value the 16-bit clk_divider CSR accepts): clk_rise = (counter == clk_divider[1:] - 1) can never be true (-1), so a started transfer "
                     "never leaves STOP (divider 1) / START (divider 0, clk_fall never true either): done stays 0 for ever; tools/replay_spi_master_hang.py div1 / div0",
            "len=0": "SPIMaster started with length 0: RUN compares count == length - 1 = -1, never true: SCK toggles for ever, done stays 0; tools/replay_spi_master_hang.py len0"}.get(what,
                     "SPIMaster started with length > data_width: count (bits_for(data_width-1) bits) wraps before it reaches length - 1: SCK toggles for ever, done stays 0 (lengths that still fit the counter, e.g. 13..16 for data_width 12, finish with more than data_width pulses); tools/replay_spi_master_hang.py lenbig")
    h.finding(name, clause, text)
    h.cover("cover.started", z3.And(x["busy"], age == K(3, AW)), depth=8)
    h.bmc_depth = 4 * dw + 24
    h.functions = ["litex.soc.cores.spi.spi_master.SPIMaster.__init__"]
    return h

def c_spi_csr(dw=8, mode="raw"):
    """SPIMaster(with_csr=True) + add_clk_divider() behind a real CSRBank (32-bit CSR bus): the register fields drive the core, the status / miso
    registers read back, and the whole transfer contract holds for transfers programmed through the registers"""
    from litex.soc.cores.spi import SPIMaster
    class Top(LiteXModule):
        def __init__(self):
            self.spi = SPIMaster(None, dw, 100e6, 25e6, with_csr=True, mode=mode)
            self.spi.add_clk_divider()
            self.bus = csr_bus.Interface(data_width=32, address_width=14)
            self.bank = csr_bus.CSRBank(self.spi.get_csrs(), address=0, bus=self.bus)
    top = mk(Top); d = top.spi; bus = top.bus; pads = d.pads
    h = HwCheck(f"SPIMaster.csr(dw={dw},{mode})", top, [bus.adr, bus.we, bus.re, bus.dat_w, pads.miso])
    V = h.v; one, zero = K(1, 1), K(0, 1)
    regs = dict(control=d._control, status=d._status, mosi=d._mosi, miso=d._miso, cs=d._cs, loopback=d._loopback, clk_divider=d._clk_divider)
    idx = {}
    for n, r in regs.items():
        sc = r.simple_csrs
        if len(sc) != 1 or sc[0] not in top.bank.simple_csrs: raise SidecarMismatch(f"SPIMaster CSR {n}: not a single word of the bank")
        idx[n] = top.bank.simple_csrs.index(sc[0])
    AWB = len(bus.adr)
    def sel(n): return V(bus.adr) == K(idx[n], AWB)                     # bank at address 0 (paging 0x800 bytes = 512 words)
    def wr(n): return z3.And(b(V(bus.we)), sel(n))
    ctrl = V(d._control.storage); DIV = V(d._clk_divider.storage); LEN = z3.Extract(15, 8, ctrl); LB = V(d._loopback.storage)
    dat = V(bus.dat_w)
    st, enc = d.fsm.state, d.fsm.encoding
    idle = eqc(V(st), enc["IDLE"]); busy = z3.Not(idle)
    pulse = z3.And(b(V(d._control.re)), z3.Extract(0, 0, ctrl) == one)
    active = z3.Or(busy, pulse)
    # ---- software discipline (partner = the CPU programming the registers)
    h.assume(z3.Implies(wr("clk_divider"), z3.And(z3.UGE(z3.Extract(15, 0, dat), K(2, 16)), z3.Not(active))), "software programs the divider register with values >= 2 and not while a transfer is in progress (start pulse to done)")
    h.assume(z3.Implies(z3.And(wr("control"), z3.Extract(0, 0, dat) == one), z3.And(z3.UGE(z3.Extract(15, 8, dat), K(1, 8)), z3.ULE(z3.Extract(15, 8, dat), K(dw, 8)))), "a write to the control register that sets start carries a length of 1..data_width")
    h.assume(z3.Implies(z3.And(wr("control"), active), z3.Extract(15, 8, dat) == LEN), "while a transfer is in progress the control register is only rewritten with the same length (a repeated start command is allowed and ignored)")
    h.assume(z3.Implies(z3.And(wr("loopback"), active), z3.Extract(0, 0, dat) == LB), "the loopback register is not changed while a transfer is in progress")
    # ---- register wiring (from the register descriptions in add_csr / add_clk_divider)
    p_wr = {n: h.prev("wr_" + n, bv1(wr(n))) for n in ("control", "mosi", "cs", "loopback", "clk_divider")}
    p_dat = h.prev("dat_w", dat)
    for n, r in (("control", d._control), ("mosi", d._mosi), ("cs", d._cs), ("loopback", d._loopback), ("clk_divider", d._clk_divider)):
        w = len(r.storage)
        h.ensure(f"ens.csr.{n}.write", h.n(r.storage) == z3.If(wr(n), z3.Extract(w - 1, 0, dat), V(r.storage)))        # written by a bus write to its address, stable otherwise
        h.hint(f"re.{n}", V(r.re) == p_wr[n])
    h.hint("ctrl.written", z3.Implies(b(p_wr["control"]), ctrl == z3.Extract(15, 0, p_dat)))
    h.ensure("ens.csr.start", b(V(d.start)) == z3.And(b(p_wr["control"]), z3.Extract(0, 0, p_dat) == one))             # a one-cycle start pulse in the cycle after a write with bit 0 set
    h.ensure("ens.csr.length", V(d.length) == LEN)
    h.ensure("ens.csr.mosi", V(d.mosi) == V(d._mosi.storage))
    ncs = len(d.cs)
    h.ensure("ens.csr.cs", z3.And(V(d.cs) == z3.Extract(ncs - 1, 0, V(d._cs.storage)), V(d.cs_mode) == z3.Extract(16, 16, V(d._cs.storage))))
    h.ensure("ens.csr.loopback", V(d.loopback) == LB)
    h.ensure("ens.csr.clk_divider", V(d.clk_divider) == DIV)
    modebit = 1 if mode == "aligned" else 0
    h.ensure("ens.csr.status.read", z3.Implies(sel("status"), h.n(bus.dat_r) == zx(z3.Concat(K(modebit, 1), V(d.done)), 32)))       # done in bit 0, mode in bit 1, one cycle after the address
    h.ensure("ens.csr.miso.read", z3.Implies(sel("miso"), h.n(bus.dat_r) == zx(V(d.miso), 32)))
    h.ensure("ens.csr.control.read", z3.Implies(sel("control"), h.n(bus.dat_r) == zx(ctrl, 32)))
    h.ensure("ens.csr.clk_divider.read", z3.Implies(sel("clk_divider"), h.n(bus.dat_r) == zx(DIV, 32)))
    # ---- configuration invariants (from the discipline)
    h.hint("div>=2", z3.UGE(DIV, K(2, 16)))
    legal = z3.And(z3.UGE(LEN, K(1, 8)), z3.ULE(LEN, K(dw, 8)))
    h.hint("len.pulse", z3.Implies(pulse, legal))
    h.hint("len.busy", z3.Implies(busy, legal))
    x = _spi_contract(h, d, dw, mode, DIV, LEN, LB, global_div=False)
    h.cover("cover.programmed-transfer", z3.And(x["irq"], LEN == K(2, 8), LB == zero, DIV == K(2, 16), _low(x["grx"], LEN, _wd(dw)) == K(2, _wd(dw))), depth=20)
    h.bmc_depth = 20
    h.functions = ["litex.soc.cores.spi.spi_master.SPIMaster.__init__", "litex.soc.cores.spi.spi_master.SPIMaster.add_csr", "litex.soc.cores.spi.spi_master.SPIMaster.add_clk_divider"]
    return h

def cases(tier):
    cs = [Case("SPIMaster.rx(8,raw)", c_spi_rx, 8, "raw"), Case("SPIMaster.rx(8,aligned)", c_spi_rx, 8, "aligned"), Case("SPIMaster.rx(8,raw,nocs)", c_spi_rx, 8, "raw", "nocs"),
          Case("SPIMaster.rx(8,aligned,cs4)", c_spi_rx, 8, "aligned", "cs4"), Case("SPIMaster.rx(5,raw)", c_spi_rx, 5, "raw"),
          Case("SPIMaster.csr(8,raw)", c_spi_csr, 8, "raw"), Case("SPIMaster.csr(8,aligned)", c_spi_csr, 8, "aligned"),
          Case("SPIMaster.corner(8,div<2)", c_spi_corner, 8, "div<2"), Case("SPIMaster.corner(8,len=0)", c_spi_corner, 8, "len=0"), Case("SPIMaster.corner(8,len>dw)", c_spi_corner, 8, "len>dw")]
    if tier == "thorough":
        cs += [Case("SPIMaster.rx(12,raw)", c_spi_rx, 12, "raw"), Case("SPIMaster.rx(12,aligned)", c_spi_rx, 12, "aligned"), Case("SPIMaster.rx(32,raw)", c_spi_rx, 32, "raw"), Case("SPIMaster.rx(32,aligned,nocs)", c_spi_rx, 32, "aligned", "nocs"),
               Case("SPIMaster.csr(32,aligned)", c_spi_csr, 32, "aligned"), Case("SPIMaster.corner(12,len>dw)", c_spi_corner, 12, "len>dw"), Case("SPIMaster.corner(32,div<2)", c_spi_corner, 32, "div<2")]
    return cs

ASSUMPTIONS = []
