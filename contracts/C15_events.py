"""C15: interrupt events are never lost and the IRQ line means pending-and-enabled.
Contracts on the real EventSource*/EventManager/SharedIRQ behind a real csr_bus.CSRBank (software view)."""
import z3
from vf.elab import L, locals_of, mk
from vf.hw import *
from migen import *
from litex.soc.interconnect import csr_bus
from litex.soc.interconnect.csr import *
from litex.soc.interconnect.csr_eventmanager import *
from vf.core import Case   # after migen's star import (migen exports its own Case)

def _mk_src(k, nm):
    return {"pulse": lambda: EventSourcePulse(name=nm), "rise": lambda: EventSourceProcess(name=nm, edge="rising"),
            "fall": lambda: EventSourceProcess(name=nm, edge="falling"), "level": lambda: EventSourceLevel(name=nm)}[k]()
def _names(n, scheme):
    # "rev": attribute names sort in the opposite order of creation (as UART's tx/rx, or GPIO's i10 < i2): register bit
    # positions follow creation order, whatever the names are
    return [f"e{i}" for i in range(n)] if scheme == "nat" else [f"s{chr(ord('z') - i)}" for i in range(n)]

def c_ev(kinds, busw=32, scheme="rev"):
    class Top(Module, AutoCSR):
        def __init__(self):
            self.submodules.ev = EventManager()
            self.srcs = []
            for (i, k), nm in zip(enumerate(kinds), _names(len(kinds), scheme)):
                s = _mk_src(k, nm); setattr(self.ev, nm, s); self.srcs.append(s)
            self.ev.finalize()
            self.bus = csr_bus.Interface(data_width=busw, address_width=14)
            self.submodules.bank = csr_bus.CSRBank(self.ev.get_csrs(), address=0, bus=self.bus)
    d = mk(Top); n = len(kinds); ev = d.ev
    h = HwCheck(f"EventManager({','.join(kinds)};bus{busw};{scheme})", d, [s.trigger for s in d.srcs] + [d.bus.adr, d.bus.we, d.bus.re, d.bus.dat_w])
    trig = [h.v(s.trigger) for s in d.srcs]; pend = [h.v(s.pending) for s in d.srcs]; clear = [h.v(s.clear) for s in d.srcs]
    ptrig = [h.prev(f"trig{i}", trig[i]) for i in range(n)]
    for i, s in enumerate(d.srcs):
        td = L(s, "trigger_d")
        if td is not None and td in h.ts.var: h.hint(f"td{i}", h.v(td) == ptrig[i])
    h.use_auto = True
    en = h.v(ev.enable.storage)
    irq_spec = z3.Or(*[z3.And(b(pend[i]), b(z3.Extract(i, i, en))) for i in range(n)])
    h.ensure("ens.irq", b(h.v(ev.irq)) == irq_spec)
    for i, k in enumerate(kinds):
        s = d.srcs[i]
        if k == "level":
            h.ensure(f"ens.level{i}", z3.And(pend[i] == trig[i], h.v(s.status) == trig[i])); continue
        event = {"pulse": b(trig[i]), "rise": z3.And(b(trig[i]), z3.Not(b(ptrig[i]))), "fall": z3.And(z3.Not(b(trig[i])), b(ptrig[i]))}[k]
        h.ensure(f"ens.set{i}",  z3.Implies(event, b(h.n(s.pending))))                                   # pending no later than the next cycle
        h.ensure(f"ens.race{i}", z3.Implies(z3.And(event, b(clear[i])), b(h.n(s.pending))))               # trigger coinciding with the clear is retained
        h.ensure(f"ens.keep{i}", z3.Implies(z3.And(b(pend[i]), z3.Not(b(clear[i]))), b(h.n(s.pending))))
        h.ensure(f"ens.clr{i}",  z3.Implies(z3.And(b(clear[i]), z3.Not(event)), z3.Not(b(h.n(s.pending)))))
        h.ensure(f"ens.nospurious{i}", z3.Implies(z3.And(z3.Not(b(pend[i])), z3.Not(event)), z3.Not(b(h.n(s.pending)))))
        h.ensure(f"ens.status{i}", h.v(s.status) == (K(0, 1) if k == "pulse" else trig[i]))
    # clear_i only from a software write of 1 to bit i of the pending register (clearing one event never clears another)
    for i in range(n):
        h.ensure(f"ens.clearsrc{i}", b(clear[i]) == z3.And(b(h.v(ev.pending.re)), b(z3.Extract(i, i, h.v(ev.pending.r)))))
    # software view through the real CSR bank: a bus write to the pending register's address raises re with r = written data
    simple = list(d.bank.simple_csrs)
    psc = ev.pending if ev.pending in simple else (ev.pending.get_simple_csrs()[0] if busw >= n else None)   # pending is a compound CSRStatus: its bus word is its first simple CSR
    if psc in simple and busw >= n:
        idx = simple.index(psc)
        sel_wr = z3.And(b(h.v(d.bus.we)), z3.Extract(8, 0, h.v(d.bus.adr)) == K(idx, 9), z3.Extract(13, 9, h.v(d.bus.adr)) == K(0, 5))
        h.ensure("ens.swclear.re", b(h.n(ev.pending.re)) == sel_wr)
        h.ensure("ens.swclear.r", z3.Implies(sel_wr, h.n(ev.pending.r) == z3.Extract(n - 1, 0, h.v(d.bus.dat_w))))
    # registers show what the property says: status = raw levels, pending = pending bits
    h.ensure("ens.statusreg", h.v(ev.status.status) == cat(*[h.v(s.status) for s in reversed(d.srcs)]))
    h.ensure("ens.pendingreg", h.v(ev.pending.status) == cat(*[h.v(s.pending) for s in reversed(d.srcs)]))
    h.cover("cover.irq", b(h.v(ev.irq)), depth=8)
    h.cover("cover.clear", z3.Or(*[b(c) for c in clear]), depth=8)
    h.functions = ["litex.soc.interconnect.csr_eventmanager.EventManager.do_finalize", "litex.soc.interconnect.csr_eventmanager.EventSourcePulse.__init__",
                   "litex.soc.interconnect.csr_eventmanager.EventSourceProcess.__init__", "litex.soc.interconnect.csr_eventmanager.EventSourceLevel.__init__",
                   "litex.soc.interconnect.csr_bus.CSRBank (flattened)"]
    return h

def c_shared(nman):
    class Top(Module, AutoCSR):
        def __init__(self):
            self.evs = []; self.buses = []
            for j in range(nman):
                ev = EventManager(); ev.e0 = EventSourcePulse(name="e0"); ev.e1 = EventSourceLevel(name="e1"); ev.finalize()
                setattr(self.submodules, f"ev{j}", ev); self.evs.append(ev)
                bus = csr_bus.Interface(data_width=32, address_width=14); self.buses.append(bus)
                setattr(self.submodules, f"bank{j}", csr_bus.CSRBank(ev.get_csrs(), address=j, bus=bus))
            self.submodules.shared = SharedIRQ(*self.evs)
    d = mk(Top)
    ins = []
    for ev, bus in zip(d.evs, d.buses): ins += [ev.e0.trigger, ev.e1.trigger, bus.adr, bus.we, bus.re, bus.dat_w]
    h = HwCheck(f"SharedIRQ({nman})", d, ins)
    h.ensure("ens.shared", b(h.v(d.shared.irq)) == z3.Or(*[b(h.v(ev.irq)) for ev in d.evs]))
    for j, ev in enumerate(d.evs):
        h.ensure(f"ens.irq{j}", b(h.v(ev.irq)) == z3.Or(z3.And(b(h.v(ev.e0.pending)), b(z3.Extract(0, 0, h.v(ev.enable.storage)))), z3.And(b(h.v(ev.e1.pending)), b(z3.Extract(1, 1, h.v(ev.enable.storage))))))
    h.cover("cover.irq", b(h.v(d.shared.irq)), depth=6)
    h.functions = ["litex.soc.interconnect.csr_eventmanager.SharedIRQ.__init__"]
    return h

def cases(tier):
    cs = [Case("EventManager(pulse)", c_ev, ["pulse"]), Case("EventManager(rise)", c_ev, ["rise"]), Case("EventManager(fall)", c_ev, ["fall"]),
          Case("EventManager(level)", c_ev, ["level"]),
          Case("EventManager(pulse,rise,fall,level)", c_ev, ["pulse", "rise", "fall", "level"]),
          Case("EventManager(rise,pulse;bus8)", c_ev, ["rise", "pulse"], 8),
          Case("EventManager(fall,level,pulse)", c_ev, ["fall", "level", "pulse"]),
          Case("EventManager(pulse,level;natural names)", c_ev, ["pulse", "level"], 32, "nat"),
          Case("SharedIRQ(2)", c_shared, 2), Case("SharedIRQ(3)", c_shared, 3)]
    if tier == "thorough":
        import itertools
        for ks in itertools.product(["pulse", "rise", "fall", "level"], repeat=2):
            cs.append(Case(f"EventManager({','.join(ks)})", c_ev, list(ks)))
        cs.append(Case("EventManager(4xpulse)", c_ev, ["pulse"] * 4))
    return cs

ASSUMPTIONS = ["CSR names given explicitly / tracer shim (Python 3.12): names only",
               "event sources are elaborated behind a real csr_bus.CSRBank; the bus master is unconstrained (any adr/we/re/dat_w every cycle)",
               "clients (Timer.ev, GPIO IRQ, UART.ev) are covered by the EventManager contract for their source mix; their trigger wiring is not under contract here"]
