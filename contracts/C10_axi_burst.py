"""C10: AXI bursts are expanded and resized according to the AXI address rules.
AXIBurst2Beat against the AMBA AXI (A3.4.1) address formula written here as a spec function; AXIUp/DownConverter address-channel
translation (same bytes) and R/W side-band alignment."""
import z3
from vf.elab import L, locals_of, mk
from vf.hw import *
from migen import *
from litex.gen import LiteXModule
from litex.soc.interconnect import stream
from litex.soc.interconnect.axi import AXIInterface, AXIUpConverter, AXIDownConverter, AXIConverter
from litex.soc.interconnect.axi.axi_full import AXIBurst2Beat, ax_description
from litex.soc.interconnect.axi.axi_stream import AXIStreamInterface
from vf.core import Case

def pay(ep): return [s for s, _ in ep.payload.iter_flat()] + [s for s, _ in ep.param.iter_flat()]

def c_burst2beat(AW=16, maxsize=7):
    ax_burst = AXIStreamInterface(layout=ax_description(AW), id_width=1)
    ax_beat  = AXIStreamInterface(layout=[("addr", AW)], id_width=1)
    d = mk(AXIBurst2Beat, ax_burst, ax_beat)
    h = HwCheck(f"AXIBurst2Beat(aw={AW},size<={maxsize})", d, [ax_burst.valid, ax_burst.addr, ax_burst.burst, ax_burst.len, ax_burst.size, ax_burst.id, ax_beat.ready])
    V = h.v
    addr, blen, bsize, btype = V(ax_burst.addr), V(ax_burst.len), V(ax_burst.size), V(ax_burst.burst)
    W = max(24, AW + 2)
    Z = lambda x: zx(x, W)
    size_b = z3.BitVecVal(1, W) << Z(bsize)
    total = (Z(blen) + 1) * size_b
    # AXI-legal burst (AMBA A3.4.1): WRAP has 2,4,8,16 beats and an aligned start; INCR does not cross a 4KB boundary; size within the bus
    legal = z3.And(ule(bsize, maxsize), ule(btype, 2),
                   z3.Implies(btype == K(2, 2), z3.And(z3.Or(blen == K(1, 8), blen == K(3, 8), blen == K(7, 8), blen == K(15, 8)), (Z(addr) & (size_b - 1)) == 0)),
                   z3.Implies(btype == K(1, 2), z3.ULE((Z(addr) & K(4095, W)) + total - (Z(addr) & (size_b - 1)), K(4096, W))))
    # the burst request is held until consumed
    n = h.ghost("n", 9)                                           # beats emitted so far of the current burst
    beat_fire = z3.And(b(V(ax_beat.valid)), b(V(ax_beat.ready)))
    burst_fire = z3.And(b(V(ax_burst.valid)), b(V(ax_burst.ready)))
    h.ghost_next(n, z3.If(beat_fire, z3.If(b(V(ax_beat.last)), K(0, 9), n + 1), n))
    inburst = n != K(0, 9)
    p_req = h.prev("req", cat(addr, blen, bsize, btype, V(ax_burst.id)))
    p_pend = h.prev("pend", bv1(z3.And(b(V(ax_burst.valid)), z3.Not(b(V(ax_burst.ready))))))
    h.assume(z3.Implies(b(p_pend), z3.And(b(V(ax_burst.valid)), cat(addr, blen, bsize, btype, V(ax_burst.id)) == p_req)), "AXI master holds the burst request (valid and payload) until ready")
    h.assume(z3.Implies(b(V(ax_burst.valid)), legal), "burst requests are AXI-legal (WRAP: 2/4/8/16 beats, aligned start; INCR within a 4KB page; size within the bus)")
    def spec_off(nn):
        """AMBA: byte offset of beat nn relative to the start address"""
        inc = zx(nn, W) * size_b
        base = Z(addr) & ~(total - 1)
        wrapped = base + ((Z(addr) - base + inc) & (total - 1)) - Z(addr)
        return z3.If(btype == K(0, 2), z3.BitVecVal(0, W), z3.If(btype == K(1, 2), inc, wrapped))
    bc, bo = L(d, "beat_count"), L(d, "beat_offset")
    h.hint("n<=len", z3.ULE(n, zx(blen, 9)) if False else z3.BoolVal(True))
    h.hint("inburst->pend", z3.Implies(inburst, b(p_pend)))
    # hints may use only ghosts and registers: the held request copy stands for the (held) burst inputs
    ADW = AW; o = 0
    idw = V(ax_burst.id).size()
    g_id = z3.Extract(idw - 1, 0, p_req); o = idw
    g_type = z3.Extract(o + 1, o, p_req); o += 2
    g_size = z3.Extract(o + 2, o, p_req); o += 3
    g_len = z3.Extract(o + 7, o, p_req); o += 8
    g_addr = z3.Extract(o + AW - 1, o, p_req)
    def spec_off_g(nn):
        sb = z3.BitVecVal(1, W) << zx(g_size, W); tot = (zx(g_len, W) + 1) * sb
        inc = zx(nn, W) * sb; base = zx(g_addr, W) & ~(tot - 1)
        wrapped = base + ((zx(g_addr, W) - base + inc) & (tot - 1)) - zx(g_addr, W)
        return z3.If(g_type == K(0, 2), z3.BitVecVal(0, W), z3.If(g_type == K(1, 2), inc, wrapped))
    legal_g = z3.And(ule(g_size, maxsize), ule(g_type, 2),
                     z3.Implies(g_type == K(2, 2), z3.And(z3.Or(g_len == K(1, 8), g_len == K(3, 8), g_len == K(7, 8), g_len == K(15, 8)), (zx(g_addr, W) & ((z3.BitVecVal(1, W) << zx(g_size, W)) - 1)) == 0)),
                     z3.Implies(g_type == K(1, 2), z3.ULE((zx(g_addr, W) & K(4095, W)) + (zx(g_len, W) + 1) * (z3.BitVecVal(1, W) << zx(g_size, W)) - (zx(g_addr, W) & ((z3.BitVecVal(1, W) << zx(g_size, W)) - 1)), K(4096, W))))
    if bc is not None and bo is not None and bc in h.ts.var and bo in h.ts.var:
        h.hint("count=n", zx(V(bc), 9) == n)
        h.hint("offset", z3.Implies(inburst, z3.And(legal_g, z3.ULE(n, zx(g_len, 9)), sx(V(bo), W) == spec_off_g(n))))
        h.hint("idle-offset", z3.Implies(z3.Not(inburst), V(bo) == K(0, V(bo).size())))
    mask = (1 << AW) - 1
    # beat address at transfer-size granularity == AMBA address of beat n
    got = z3.LShR(zx(V(ax_beat.addr), W), Z(bsize)); want = z3.LShR((Z(addr) + spec_off(n)) & K(mask, W), Z(bsize))
    active = z3.And(b(V(ax_beat.valid)), b(V(ax_burst.valid)))
    h.ensure("ens.addr", z3.Implies(active, got == want))
    h.ensure("ens.first", z3.Implies(active, b(V(ax_beat.first)) == (n == K(0, 9))))
    h.ensure("ens.last", z3.Implies(active, b(V(ax_beat.last)) == (n == zx(blen, 9))))
    h.ensure("ens.count", z3.Implies(active, z3.ULE(n, zx(blen, 9))))                                  # exactly len+1 beats: n runs 0..len, last at n==len
    h.ensure("ens.consume", burst_fire == z3.And(beat_fire, b(V(ax_beat.last)), b(V(ax_burst.valid))))  # request consumed exactly once, with the last beat
    h.ensure("ens.valid", b(V(ax_beat.valid)) == z3.Or(b(V(ax_burst.valid)), inburst))
    h.ensure("ens.id", z3.Implies(active, V(ax_beat.id) == V(ax_burst.id)))
    stalled = z3.And(b(V(ax_beat.valid)), z3.Not(b(V(ax_beat.ready))))
    h.ensure_seq("ens.hold", lambda at: z3.Implies(at(stalled, 0), z3.And(at(b(V(ax_beat.valid)), 1), at(V(ax_beat.addr), 1) == at(V(ax_beat.addr), 0), at(V(ax_beat.last), 1) == at(V(ax_beat.last), 0))))
    h.respond("resp.beat", z3.And(b(V(ax_burst.valid)), b(V(ax_beat.ready))), beat_fire, 1)
    h.cover("cover.wrap", z3.And(btype == K(2, 2), n == K(5, 9), blen == K(7, 8), beat_fire), depth=7)
    h.cover("cover.done", burst_fire, depth=3)
    h.functions = ["litex.soc.interconnect.axi.axi_full.AXIBurst2Beat.__init__"]
    h.bmc_depth = 8
    return h

def c_conv(kind, dw_from, dw_to):
    a = AXIInterface(data_width=dw_from, address_width=32, id_width=2); c = AXIInterface(data_width=dw_to, address_width=32, id_width=2)
    d = mk(AXIUpConverter if kind == "up" else AXIDownConverter, a, c)
    ins = []
    for ch in ("aw", "w", "ar"): ins += [getattr(a, ch).valid, getattr(a, ch).first, getattr(a, ch).last] + pay(getattr(a, ch))
    ins += [a.b.ready, a.r.ready]
    for ch in ("b", "r"): ins += [getattr(c, ch).valid, getattr(c, ch).first, getattr(c, ch).last] + pay(getattr(c, ch))
    ins += [c.aw.ready, c.w.ready, c.ar.ready]
    h = HwCheck(f"AXI{'Up' if kind == 'up' else 'Down'}Converter({dw_from}->{dw_to})", d, ins)
    lf, lt = (dw_from // 8).bit_length() - 1, (dw_to // 8).bit_length() - 1
    ratio = max(dw_from, dw_to) // min(dw_from, dw_to)
    W = 24
    for ch in ("aw", "ar"):
        f, t = getattr(a, ch), getattr(c, ch)
        bytes_f = (zx(h.v(f.len), W) + 1) << zx(h.v(f.size), W); bytes_t = (zx(h.v(t.len), W) + 1) << zx(h.v(t.size), W)
        incr = z3.And(ule(h.v(f.size), lf), h.v(f.burst) == K(1, 2))
        full = h.v(f.size) == K(lf, 3)
        if kind == "down":
            fits = z3.ULE((zx(h.v(f.len), W) + 1) * ratio, K(256, W))
            h.ensure(f"ens.{ch}.bytes@full-size-fits", z3.Implies(z3.And(incr, full, fits), z3.And(bytes_f == bytes_t, ule(h.v(t.size), lt), h.v(t.burst) == K(1, 2))))
            h.finding(f"finding.{ch}.len-overflow", z3.Implies(z3.And(incr, full), bytes_f == bytes_t),
                      "AXIDownConverter computes len_to = ((len+1) << log2(ratio)) - 1 in the 8-bit len field: a legal burst with (len+1)*ratio > 256 transfers fewer bytes")
            h.finding(f"finding.{ch}.narrow", z3.Implies(z3.And(incr, z3.Not(full)), bytes_f == bytes_t),
                      "AXI converters scale len as if every beat were full width: for a narrow burst (size below the source bus width) the translated burst transfers a different number of bytes")
            h.ensure(f"ens.{ch}.addr", h.v(t.addr) == (h.v(f.addr) & K(2**32 - (dw_from // 8), 32)))
            # "deliver all data beats with last on the final one": the W/R stride converters split EVERY wide beat into `ratio` narrow beats (proved in
            # C10_axi_datapath.py, whatever `size` says), so the announced length must be ratio x the wide beat count for every size - also for narrow
            # transfers, where the surplus beats carry no strobes
            h.ensure(f"ens.{ch}.len-matches-datapath", z3.Implies(fits, zx(h.v(t.len), W) + 1 == (zx(h.v(f.len), W) + 1) * ratio))
        else:
            whole = z3.URem(zx(h.v(f.len), W) + 1, K(ratio, W)) == 0
            h.ensure(f"ens.{ch}.bytes@full-size-whole-words", z3.Implies(z3.And(incr, full, whole), z3.And(bytes_f == bytes_t, ule(h.v(t.size), lt))))
            h.ensure(f"ens.{ch}.bytes@narrow-whole-words", z3.Implies(z3.And(incr, z3.Not(full), whole), bytes_f == bytes_t))
            h.ensure(f"ens.{ch}.addr", h.v(t.addr) == h.v(f.addr))
        # burst type: "the same bytes in the same order" - an incrementing burst stays incrementing and a wrapping burst stays wrapping (its
        # wrap boundary (len+1)*2**size is the same number of bytes on both sides); a single-beat FIXED burst may become INCR (the down-converter
        # walks through the sub-words of the one word); the reserved encoding is never produced from a legal type
        fb, tb = h.v(f.burst), h.v(t.burst)
        h.ensure(f"ens.{ch}.burst", z3.And(z3.Implies(fb == K(1, 2), tb == K(1, 2)), z3.Implies(fb == K(2, 2), tb == K(2, 2)),
                                            z3.Implies(z3.And(fb == K(0, 2), h.v(f.len) == K(0, 8)), z3.Or(tb == K(0, 2), tb == K(1, 2))), z3.Implies(fb != K(3, 2), tb != K(3, 2))))
        h.ensure(f"ens.{ch}.valid", z3.And(h.v(t.valid) == h.v(f.valid), h.v(f.ready) == h.v(t.ready), h.v(t.id) == h.v(f.id)))
    h.ensure("ens.b", z3.And(h.v(a.b.valid) == h.v(c.b.valid), h.v(c.b.ready) == h.v(a.b.ready), h.v(a.b.resp) == h.v(c.b.resp), h.v(a.b.id) == h.v(c.b.id)))
    # R side band (id/resp) must be stable while a read beat is stalled (AXI: payload stable while valid & ~ready)
    stalled = z3.And(b(h.v(a.r.valid)), z3.Not(b(h.v(a.r.ready))))
    rsb = cat(h.v(a.r.id), h.v(a.r.resp))
    for chn in ("r",):
        p_off = h.prev("roffer", bv1(z3.And(b(h.v(c.r.valid)), z3.Not(b(h.v(c.r.ready)))))); p_tok = h.prev("rtok", cat(h.v(c.r.data), h.v(c.r.id), h.v(c.r.resp), h.v(c.r.last)))
        h.assume(z3.Implies(b(p_off), z3.And(b(h.v(c.r.valid)), cat(h.v(c.r.data), h.v(c.r.id), h.v(c.r.resp), h.v(c.r.last)) == p_tok)), "AXI slave holds R valid/payload until ready")
    if kind == "down":
        h.ensure("ens.r.sideband-hold", z3.Implies(b(h.prev("rstall", bv1(stalled))), rsb == h.prev("rsb", rsb)))
    else:
        h.ensure("ens.r.sideband", z3.And(h.v(a.r.id) == h.v(c.r.id), h.v(a.r.resp) == h.v(c.r.resp)))
    h.bmc_depth = 6
    h.functions = [f"litex.soc.interconnect.axi.axi_full.AXI{'Up' if kind == 'up' else 'Down'}Converter.__init__", "litex.soc.interconnect.stream.StrideConverter (data path: C03 contract)"]
    return h

def cases(tier):
    cs = [Case("AXIBurst2Beat(aw=16)", c_burst2beat, 16, 7), Case("AXIBurst2Beat(aw=32,size<=3)", c_burst2beat, 32, 3),
          Case("AXIUpConverter(32->64)", c_conv, "up", 32, 64), Case("AXIUpConverter(32->128)", c_conv, "up", 32, 128),
          Case("AXIDownConverter(64->32)", c_conv, "down", 64, 32), Case("AXIDownConverter(128->32)", c_conv, "down", 128, 32)]
    if tier == "thorough":
        cs += [Case("AXIUpConverter(32->256)", c_conv, "up", 32, 256), Case("AXIDownConverter(256->32)", c_conv, "down", 256, 32)]
    return cs

ASSUMPTIONS = ["AXI-legal bursts: WRAP 2/4/8/16 beats with aligned start, INCR within a 4KB page, size within the bus; request held until ready",
               "addresses compared at transfer-size granularity, as the property states",
               "converter data paths (W/R beats, last on the final beat) are the C03 StrideConverter contracts; here: address-channel translation and side bands",
               "converters are proved for INCR, full-width bursts ((len+1)*ratio <= 256 down, whole target words up); the other cases are listed known findings"]
