#!/bin/sh
# Builds /verif/.venv offline (python 3.12 = /venv's interpreter) with z3-solver, cvc5, jsonschema from the wheelhouse
# and a .pth that appends /venv's site-packages (migen, editable litex -> /repo working tree).
set -e
cd "$(dirname "$0")"
if [ -x .venv/bin/python ] && .venv/bin/python -c "import z3, migen, litex, jsonschema" 2>/dev/null; then
  echo "setup: .venv already usable"; exit 0
fi
rm -rf .venv
/venv/bin/python -m venv .venv
PIP_NO_INDEX=1 .venv/bin/python -m pip install --quiet --no-index --find-links /opt/veriftools/wheels z3-solver cvc5 jsonschema lark
SP=$(.venv/bin/python -c "import site; print(site.getsitepackages()[0])")
echo "import site; site.addsitedir('/venv/lib/python3.12/site-packages')" > "$SP/zz_venv.pth"
.venv/bin/python -c "import z3, migen, litex, jsonschema; print('setup ok', z3.get_version_string(), litex.__file__)"
